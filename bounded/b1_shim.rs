// ---- stand-in for the two ntex_bytes types src/topic.rs uses (ByteString over Bytes; slice_ref / from_bytes_unchecked / slice) ----
#![allow(unused, dead_code)]
pub mod ntex_bytes {
    #[derive(Clone, Debug, PartialEq, Eq, Hash, PartialOrd, Ord, Default)]
    pub struct Bytes(pub Vec<u8>);
    impl Bytes {
        /// the sub-slice `s` of self as an owned value (the real one shares the buffer)
        pub fn slice_ref(&self, s: &[u8]) -> Bytes {
            let base = self.0.as_ptr() as usize;
            let p = s.as_ptr() as usize;
            assert!(s.is_empty() || (p >= base && p + s.len() <= base + self.0.len()), "slice_ref: not a sub-slice");
            Bytes(s.to_vec())
        }
    }
    #[derive(Clone, Debug, PartialEq, Eq, Hash, PartialOrd, Ord, Default)]
    pub struct ByteString(Bytes);
    impl ByteString {
        pub fn as_bytes(&self) -> &Bytes { &self.0 }
        pub unsafe fn from_bytes_unchecked(b: Bytes) -> ByteString { ByteString(b) }
        pub fn as_str(&self) -> &str { unsafe { std::str::from_utf8_unchecked(&(self.0).0) } }
        /// sub-string by byte range (the real one shares the buffer and panics off a char boundary, as `str` indexing does)
        pub fn slice(&self, r: impl std::ops::RangeBounds<usize>) -> ByteString {
            use std::ops::Bound::*;
            let s = self.as_str();
            let a = match r.start_bound() { Included(&x) => x, Excluded(&x) => x + 1, Unbounded => 0 };
            let b = match r.end_bound() { Included(&x) => x + 1, Excluded(&x) => x, Unbounded => s.len() };
            ByteString::from(&s[a..b])
        }
    }
    impl PartialEq<str> for ByteString { fn eq(&self, o: &str) -> bool { self.as_str() == o } }
    impl PartialEq<&str> for ByteString { fn eq(&self, o: &&str) -> bool { self.as_str() == *o } }
    impl std::ops::Deref for ByteString { type Target = str; fn deref(&self) -> &str { self.as_str() } }
    impl AsRef<str> for ByteString { fn as_ref(&self) -> &str { self.as_str() } }
    impl From<&str> for ByteString { fn from(s: &str) -> Self { ByteString(Bytes(s.as_bytes().to_vec())) } }
    impl From<String> for ByteString { fn from(s: String) -> Self { ByteString(Bytes(s.into_bytes())) } }
    impl std::fmt::Display for ByteString { fn fmt(&self, f: &mut std::fmt::Formatter<'_>) -> std::fmt::Result { f.write_str(self.as_str()) } }
}

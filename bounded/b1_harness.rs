// ---- B1 (bounded, NOT a proof): the string parser of TopicFilter against the byte validator proved in U6 and an independent
// ---- reading of MQTT section 4.7 level kinds, over every string up to a stated length over a stated alphabet ----
use std::str::FromStr;
use topic::{is_valid, TopicFilter, TopicFilterLevel};

#[derive(Debug, PartialEq)]
enum Kind { Normal(String), System(String), Blank, Single, Multi }

fn spec_levels(s: &str) -> Vec<Kind> {
    s.split('/').enumerate().map(|(i, l)| match l {
        "+" => Kind::Single,
        "#" => Kind::Multi,
        "" => Kind::Blank,
        _ => if i == 0 && l.starts_with('$') { Kind::System(l.to_string()) } else { Kind::Normal(l.to_string()) },
    }).collect()
}
fn got_levels(f: TopicFilter) -> Vec<Kind> {
    let v: Vec<TopicFilterLevel> = f.into();
    v.into_iter().map(|l| match l {
        TopicFilterLevel::Normal(s) => Kind::Normal(s.to_string()),
        TopicFilterLevel::System(s) => Kind::System(s.to_string()),
        TopicFilterLevel::Blank => Kind::Blank,
        TopicFilterLevel::SingleWildcard => Kind::Single,
        TopicFilterLevel::MultiWildcard => Kind::Multi,
    }).collect()
}

fn main() {
    std::panic::set_hook(Box::new(|_| {}));
    // 'é' is two bytes long: byte offsets and character counts differ from the first occurrence on
    let alphabet = ['a', '$', '/', '+', '#', 'é'];
    let max_len: usize = std::env::args().nth(1).and_then(|a| a.parse().ok()).unwrap_or(7);
    let mut cases: u64 = 0;
    let mut accepted: u64 = 0;
    let mut cur: Vec<usize> = Vec::new();
    // odometer over all strings of length 0..=max_len
    for len in 0..=max_len {
        cur.clear();
        cur.resize(len, 0);
        loop {
            let s: String = cur.iter().map(|&i| alphabet[i]).collect();
            cases += 1;
            let want = is_valid(&s);
            let got = match std::panic::catch_unwind(|| TopicFilter::from_str(&s)) {
                Ok(g) => g,
                Err(_) => {
                    println!("MISMATCH panic input={:?} the parser panicked", s);
                    std::process::exit(1);
                }
            };
            if got.is_ok() != want {
                println!("MISMATCH accept input={:?} parser_accepts={} section_4_7_validator_accepts={}", s, got.is_ok(), want);
                std::process::exit(1);
            }
            if let Ok(f) = got {
                accepted += 1;
                let shown = f.to_string();
                let lv = got_levels(f);
                if lv != spec_levels(&s) {
                    println!("MISMATCH levels input={:?} parser={:?} section_4_7={:?}", s, lv, spec_levels(&s));
                    std::process::exit(1);
                }
                if shown != s {
                    println!("MISMATCH display input={:?} shown={:?}", s, shown);
                    std::process::exit(1);
                }
            }
            // next
            let mut k = len;
            loop {
                if k == 0 { break; }
                k -= 1;
                cur[k] += 1;
                if cur[k] < alphabet.len() { break; }
                cur[k] = 0;
                if k == 0 { k = usize::MAX; break; }
            }
            if len == 0 || k == usize::MAX { break; }
        }
    }
    println!("OK cases={} accepted={} alphabet={:?} max_len={}", cases, accepted, alphabet, max_len);
}

use vstd::prelude::*;
verus! {

// ---------------- prelude shims (assumed) ----------------
#[verifier::external_body]
pub struct ByteString { inner: Vec<u8> }
impl ByteString {
    pub uninterp spec fn view(&self) -> Seq<u8>;
    #[verifier::external_body]
    pub fn len(&self) -> (r: usize) ensures r == self@.len() { self.inner.len() }
}
#[verifier::external_body]
pub struct BytePages { inner: Vec<u8> }
impl BytePages {
    pub uninterp spec fn view(&self) -> Seq<u8>;
    #[verifier::external_body]
    pub fn put_u8(&mut self, v: u8) ensures final(self)@ == old(self)@.push(v) { self.inner.push(v) }
    #[verifier::external_body]
    pub fn len(&self) -> (r: usize) ensures r == self@.len() { self.inner.len() }
}
pub enum EncodeError { InvalidLength }

pub trait Encode {
    spec fn spec_bytes(&self) -> Seq<u8>;
    spec fn encodable(&self) -> bool;
    fn encoded_size(&self) -> (r: usize)
        requires self.encodable()
        ensures r == self.spec_bytes().len();
    fn encode(&self, buf: &mut BytePages) -> (r: Result<(), EncodeError>)
        ensures
            r is Ok ==> final(buf)@ == old(buf)@ + self.spec_bytes(),
            self.encodable() ==> r is Ok;
}

pub open spec fn be16(n: int) -> Seq<u8> { seq![(n / 256) as u8, (n % 256) as u8] }
pub open spec fn enc_str(s: Seq<u8>) -> Seq<u8> { be16(s.len() as int) + s }

impl Encode for ByteString {
    open spec fn spec_bytes(&self) -> Seq<u8> { enc_str(self@) }
    open spec fn encodable(&self) -> bool { self@.len() <= 65535 }
    #[verifier::external_body]
    fn encoded_size(&self) -> (r: usize) { 2 + self.inner.len() }
    #[verifier::external_body]
    fn encode(&self, buf: &mut BytePages) -> (r: Result<(), EncodeError>) { Ok(()) }
}

pub type UserProperty = (ByteString, ByteString);

impl Encode for UserProperty {
    open spec fn spec_bytes(&self) -> Seq<u8> { enc_str(self.0@) + enc_str(self.1@) }
    open spec fn encodable(&self) -> bool { self.0@.len() <= 65535 && self.1@.len() <= 65535 }
    fn encoded_size(&self) -> (r: usize) {
        self.0.encoded_size() + self.1.encoded_size()
    }
    fn encode(&self, buf: &mut BytePages) -> (r: Result<(), EncodeError>) {
        self.0.encode(buf)?;
        self.1.encode(buf)
    }
}

pub const USER: u8 = 0x26;
pub const REASON_STRING: u8 = 0x1F;

// ---------------- specification ----------------
pub open spec fn up_bytes(up: UserProperty) -> Seq<u8> { seq![USER] + up.spec_bytes() }
pub open spec fn reason_bytes(r: ByteString) -> Seq<u8> { seq![REASON_STRING] + enc_str(r@) }

/// bytes of the first `k` user properties
pub open spec fn ups_bytes(ups: Seq<UserProperty>, k: int) -> Seq<u8>
    decreases k
{
    if k <= 0 { seq![] } else { ups_bytes(ups, k - 1) + up_bytes(ups[k - 1]) }
}

/// number of leading whole user properties that fit into `limit`
pub open spec fn fit_count(ups: Seq<UserProperty>, limit: int, from: int) -> int
    decreases ups.len() - from
{
    if from >= ups.len() { from }
    else if up_bytes(ups[from]).len() > limit { from }
    else { fit_count(ups, limit - up_bytes(ups[from]).len(), from + 1) }
}

pub open spec fn all_encodable(ups: Seq<UserProperty>) -> bool {
    forall|i: int| 0 <= i < ups.len() ==> (#[trigger] ups[i]).encodable()
}

// ---------------- extracted: src/v5/codec/encode.rs ----------------
pub(crate) fn encoded_size_opt_props(
    user_props: &[UserProperty],
    reason_str: &Option<ByteString>,
    mut limit: u32,
) -> (r: usize)
    requires
        all_encodable(user_props@),
        reason_str is Some ==> reason_str->0.encodable(),
    ensures
        r <= limit,
        ({
            let k = fit_count(user_props@, limit as int, 0);
            let base = ups_bytes(user_props@, k).len();
            if k == user_props@.len() && reason_str is Some && reason_bytes(reason_str->0).len() <= limit - base {
                r == base + reason_bytes(reason_str->0).len()
            } else {
                r == base
            }
        }),
{
    let mut len = 0;
    let ghost limit0 = limit;
    let ghost mut i: int = 0;
    #[verifier::loop_isolation(false)]
    for up in it: user_props
        invariant
            all_encodable(user_props@),
            i == it.index@,
            0 <= i <= user_props@.len(),
            len == ups_bytes(user_props@, i).len(),
            len + limit == limit0,
            fit_count(user_props@, limit0 as int, 0) == fit_count(user_props@, limit as int, i),
    {
        let prop_len = 1 + up.encoded_size(); // prop type byte + key.len() + val.len()
        proof {
            assert(up == user_props@[i]);
            assert(prop_len == up_bytes(user_props@[i]).len());
        }
        if prop_len > limit as usize {
            return len;
        }
        limit -= prop_len as u32;
        len += prop_len;
        proof { i = i + 1; }
    }

    if let Some(reason) = reason_str {
        let reason_len = 1 + reason.encoded_size(); // safety: TODO: CHECK string length for being out of bounds (> u16::max_value())?
        if reason_len <= limit as usize {
            len += reason_len;
        }
    }

    len
}


pub open spec fn selection(ups: Seq<UserProperty>, reason: Option<ByteString>, limit: int) -> Seq<u8> {
    let k = fit_count(ups, limit, 0);
    let base = ups_bytes(ups, k);
    if k == ups.len() && reason is Some && reason_bytes(reason->0).len() <= limit - base.len() {
        base + reason_bytes(reason->0)
    } else {
        base
    }
}

pub proof fn lemma_ups_len_mono(ups: Seq<UserProperty>, a: int, b: int)
    requires 0 <= a <= b <= ups.len()
    ensures ups_bytes(ups, a).len() <= ups_bytes(ups, b).len()
    decreases b - a
{
    if a < b { lemma_ups_len_mono(ups, a, b - 1); }
}

/// with a budget that is exactly the size of the selection made under `limit`,
/// the same selection is made again
pub(crate) fn encode_opt_props(
    user_props: &[UserProperty],
    reason_str: &Option<ByteString>,
    buf: &mut BytePages,
    mut size: u32,
) -> (r: Result<(), EncodeError>)
    requires
        all_encodable(user_props@),
        reason_str is Some ==> reason_str->0.encodable(),
        exists|limit: int| size == (#[trigger] selection(user_props@, *reason_str, limit)).len(),
    ensures
        r is Ok,
        final(buf)@.len() == old(buf)@.len() + size,
{
    let ghost size0 = size;
    let ghost mut i: int = 0;
    #[verifier::loop_isolation(false)]
    for up in it: user_props
        invariant
            i == it.index@,
            0 <= i <= user_props@.len(),
            buf@.len() == old(buf)@.len() + ups_bytes(user_props@, i).len(),
            size + ups_bytes(user_props@, i).len() == size0,
    {
        let prop_len = 1 + up.0.encoded_size() + up.1.encoded_size(); // prop_type.len() + key.len() + val.len()
        proof {
            assert(up == user_props@[i]);
            assert(prop_len == up_bytes(user_props@[i]).len());
        }
        if prop_len > size as usize {
            return Ok(());
        }
        buf.put_u8(USER);
        let r0 = up.encode(buf);
        match r0 { Ok(()) => {}, Err(e) => { return Err(e); } }
        size -= prop_len as u32; // safe: checked it's less already
        proof { i = i + 1; }
    }

    if let Some(reason) = reason_str {
        if reason.len() < size as usize
        {
            buf.put_u8(REASON_STRING);
            let r1 = reason.encode(buf);
            match r1 { Ok(()) => {}, Err(e) => { return Err(e); } }
        }
    }

    // todo: debug_assert remaining is 0

    Ok(())
}

} // verus!
fn main() {}

use vstd::prelude::*;
verus! {

#[verifier::external_body]
pub struct BytesMut { v: Vec<u8> }
impl BytesMut {
    pub uninterp spec fn view(&self) -> Seq<u8>;
    #[verifier::external_body]
    pub fn len(&self) -> (r: usize) ensures r == self@.len() { self.v.len() }
    #[verifier::external_body]
    pub fn as_ref(&self) -> (r: &[u8]) ensures r@ == self@ { &self.v }
}

fn dvl(src: &[u8]) -> (r: Option<(u32, usize)>) ensures r is Some ==> (r->0).1 <= src@.len() { None }

fn hdr(src: &mut BytesMut) -> Option<u8> {
    if src.len() < 2 {
        return None;
    }
    let src_slice = src.as_ref();
    let first_byte = src_slice[0];
    match dvl(&src_slice[1..]) {
        Some((remaining_length, consumed)) => Some(first_byte),
        None => None,
    }
}

#[allow(clippy::match_same_arms)]
pub(crate) fn is_valid(topic: &[u8]) -> bool {
    if topic.len() == 0 {
        false
    } else {
        enum PrevState {
            None,
            LevelSep,
            SingleWildcard,
            MultiWildcard,
            Other,
        }

        let mut previous = PrevState::None;
        for current in topic {
            previous = match (*current, &previous) {
                (_, PrevState::MultiWildcard) => return false, // `#` is not last char
                (b'+', PrevState::None | PrevState::LevelSep) => PrevState::SingleWildcard,
                (b'#', PrevState::None | PrevState::LevelSep) => PrevState::MultiWildcard,
                (b'+' | b'#', _) => return false, // `+` or `#` after char other than `/`
                (b'/', _) => PrevState::LevelSep,
                (_, PrevState::SingleWildcard) => return false, // `+` is followed by char other than `/`
                _ => PrevState::Other,
            }
        }
        true
    }
}
}
fn main() {}

use std::sync::atomic::{AtomicBool, Ordering::Relaxed};
use std::sync::{Arc, Mutex};
use std::{cell::RefCell, rc::Rc};
use std::{future::Future, num::NonZeroU16, pin::Pin, time::Duration};

use ntex::service::{ServiceFactory, cfg::SharedCfg, fn_factory_with_config, fn_service};
use ntex::time::{Millis, Seconds, sleep};
use ntex::util::{BytePages, ByteString, Bytes, Ready, lazy};
use ntex::{codec::Encoder, io::Framed, io::IoConfig, rt, server};

use ntex_mqtt::v5::codec::{self, Decoded, Encoded, Packet};
use ntex_mqtt::v5::{
    Handshake, HandshakeAck, MqttServer, ProtocolMessage, Publish, PublishAck, QoS, Session,
    client, error,
};
use ntex_mqtt::{Control, MqttServiceConfig, Reason};

struct St;

#[derive(Debug)]
struct TestError;

impl From<()> for TestError {
    fn from(_: ()) -> Self {
        TestError
    }
}

impl TryFrom<TestError> for PublishAck {
    type Error = TestError;

    fn try_from(err: TestError) -> Result<Self, Self::Error> {
        Err(err)
    }
}

fn pkt_publish() -> codec::Publish {
    codec::Publish {
        dup: false,
        retain: false,
        qos: codec::QoS::AtLeastOnce,
        topic: ByteString::from("test"),
        packet_id: Some(NonZeroU16::new(1).unwrap()),
        payload_size: 0,
        properties: Default::default(),
    }
}

fn packet(res: Decoded) -> Packet {
    match res {
        Decoded::Packet(pkt, _) => pkt,
        _ => panic!(),
    }
}

async fn handshake(packet: Handshake) -> Result<HandshakeAck<St>, TestError> {
    Ok(packet.ack(St))
}

#[ntex::test]
async fn probe_qos2_concurrent() -> std::io::Result<()> {
    let srv = server::test_server(async || {
        MqttServer::new(async |packet: Handshake| {
            let sink = packet.sink();
            ntex::rt::spawn(async move {
                sleep(Millis(100)).await;
                let f1 = sink.publish(ByteString::from_static("t1")).send_exactly_once(Bytes::new());
                let f2 = sink.publish(ByteString::from_static("t2")).send_exactly_once(Bytes::new());
                let (r1, r2) = ntex::util::join(f1, f2).await;
                println!("PROBE received: {:?} {:?}", r1.is_ok(), r2.is_ok());
                let (r1, r2) = (r1.unwrap(), r2.unwrap());
                let a = ntex::time::timeout(Millis(1000), r1.release()).await;
                println!("PROBE-RESULT release #1 -> {:?}", a);
                let b = ntex::time::timeout(Millis(1000), r2.release()).await;
                println!("PROBE-RESULT release #2 -> {:?}", b);
            });
            Ok::<_, TestError>(packet.ack(St).max_send(Some(4)))
        })
        .publish(|p: Publish| Ready::Ok::<_, TestError>(p.ack()))
    });

    let io = srv.connect().await.unwrap();
    let codec = codec::Codec::new();
    io.send(Encoded::Packet(codec::Connect::default().client_id("user").into()), &codec)
        .await
        .unwrap();
    let _ = io.recv(&codec).await.unwrap().unwrap();
    let mut ids = Vec::new();
    for _ in 0..2 {
        if let Ok(Ok(Some(Decoded::Publish(p, _, _)))) = ntex::time::timeout(Millis(1000), io.recv(&codec)).await {
            ids.push(p.packet_id.unwrap());
        }
    }
    println!("PROBE publishes: {:?}", ids);
    for id in &ids {
        io.send(Encoded::Packet(Packet::PublishReceived(codec::PublishAck { packet_id: *id, reason_code: codec::PublishAckReason::Success, properties: Default::default(), reason_string: None })), &codec).await.unwrap();
    }
    // answer every PUBREL with PUBCOMP
    loop {
        match ntex::time::timeout(Millis(2500), io.recv(&codec)).await {
            Ok(Ok(Some(Decoded::Packet(Packet::PublishRelease(p), _)))) => {
                println!("PROBE got PUBREL id={}", p.packet_id);
                io.send(Encoded::Packet(Packet::PublishComplete(codec::PublishAck2 { packet_id: p.packet_id, reason_code: codec::PublishAck2Reason::Success, properties: Default::default(), reason_string: None })), &codec).await.unwrap();
            }
            other => { println!("PROBE stop {:?}", other.map(|r| r.map(|o| o.is_some()))); break; }
        }
    }
    Ok(())
}

use std::sync::atomic::{AtomicBool, Ordering::Relaxed};
use std::sync::{Arc, Mutex};
use std::{cell::RefCell, rc::Rc};
use std::{future::Future, num::NonZeroU16, pin::Pin, time::Duration};

use ntex::service::{ServiceFactory, cfg::SharedCfg, fn_factory_with_config, fn_service};
use ntex::time::{Millis, Seconds, sleep};
use ntex::util::{BytePages, ByteString, Bytes, Ready, lazy};
use ntex::{codec::Encoder, io::Framed, io::IoConfig, rt, server};

use ntex_mqtt::v5::codec::{self, Decoded, Encoded, Packet};
use ntex_mqtt::v5::{
    Handshake, HandshakeAck, MqttServer, ProtocolMessage, Publish, PublishAck, QoS, Session,
    client, error,
};
use ntex_mqtt::{Control, MqttServiceConfig, Reason};

struct St;

#[derive(Debug)]
struct TestError;

impl From<()> for TestError {
    fn from(_: ()) -> Self {
        TestError
    }
}

impl TryFrom<TestError> for PublishAck {
    type Error = TestError;

    fn try_from(err: TestError) -> Result<Self, Self::Error> {
        Err(err)
    }
}

fn pkt_publish() -> codec::Publish {
    codec::Publish {
        dup: false,
        retain: false,
        qos: codec::QoS::AtLeastOnce,
        topic: ByteString::from("test"),
        packet_id: Some(NonZeroU16::new(1).unwrap()),
        payload_size: 0,
        properties: Default::default(),
    }
}

fn packet(res: Decoded) -> Packet {
    match res {
        Decoded::Packet(pkt, _) => pkt,
        _ => panic!(),
    }
}

async fn handshake(packet: Handshake) -> Result<HandshakeAck<St>, TestError> {
    Ok(packet.ack(St))
}

#[ntex::test]
async fn probe_window() -> std::io::Result<()> {
    let srv = server::test_server(async || {
        MqttServer::new(async |packet: Handshake| {
            let sink = packet.sink();
            ntex::rt::spawn(async move {
                sleep(Millis(100)).await;
                println!("PROBE credit before sends = {}", sink.credit());
                let f1 = sink.publish(ByteString::from_static("t1")).send_at_least_once(Bytes::new());
                let f2 = sink.publish(ByteString::from_static("t2")).send_at_least_once(Bytes::new());
                let (r1, r2) = ntex::util::join(f1, f2).await;
                println!("PROBE-RESULT sends returned {:?} {:?}", r1.is_ok(), r2.is_ok());
            });
            Ok::<_, TestError>(packet.ack(St).max_send(Some(1)))
        })
        .publish(|p: Publish| Ready::Ok::<_, TestError>(p.ack()))
    });

    let io = srv.connect().await.unwrap();
    let codec = codec::Codec::new();
    io.send(Encoded::Packet(codec::Connect::default().client_id("user").into()), &codec)
        .await
        .unwrap();
    let _ = io.recv(&codec).await.unwrap().unwrap();
    let mut n = 0;
    loop {
        match ntex::time::timeout(Millis(500), io.recv(&codec)).await {
            Ok(Ok(Some(Decoded::Publish(p, _, _)))) => { n += 1; println!("PROBE unacked publish #{} id={:?}", n, p.packet_id); }
            other => { println!("PROBE stop: {:?}", other.is_ok()); break; }
        }
    }
    println!("PROBE-RESULT unacknowledged publishes received with send limit 1: {}", n);
    Ok(())
}

use vstd::prelude::*;
verus! {
#[verifier::external_body]
fn str_bytes(s: &str) -> (r: Vec<u8>) ensures r@.len() == s@.len() { s.bytes().collect() }

fn cnt(topic: &str) -> (n: usize) {
    let mut n: usize = 0;
    for current in str_bytes(topic) {
        if current == b'/' && n < 100 { n += 1; }
    }
    n
}
}
fn main() {}

#![feature(allocator_api)]
use vstd::prelude::*;
use std::collections::VecDeque;
verus! {

pub assume_specification<T> [std::mem::replace] (dest: &mut T, src: T) -> (r: T)
    ensures *final(dest) == src, r == *old(dest);

pub assume_specification<T, A: std::alloc::Allocator> [std::collections::VecDeque::<T, A>::front_mut] (q: &mut VecDeque<T, A>) -> (r: Option<&mut T>)
    ensures
        old(q)@.len() == 0 ==> r is None && final(q)@ == old(q)@,
        old(q)@.len() > 0 ==> r is Some && *(r->0) == old(q)@[0] && final(q)@ == old(q)@.update(0, *final(r->0)),
;

pub enum ServiceResult<T> { Pending, Ready(T) }
impl<T> ServiceResult<T> {
    fn take(&mut self) -> (r: Option<T>)
        ensures (*final(self)) is Pending,
            (*old(self)) is Pending ==> r is None,
            (*old(self)) is Ready ==> r == Some((*old(self))->Ready_0),
    {
        let this = std::mem::replace(self, ServiceResult::Pending);
        match this {
            ServiceResult::Pending => None,
            ServiceResult::Ready(result) => Some(result),
        }
    }
}

fn drain(queue: &mut VecDeque<ServiceResult<u32>>, out: &mut Vec<u32>)
    ensures final(out)@.len() >= old(out)@.len()
{
    while let Some(item) = queue.front_mut().and_then(ServiceResult::take)
        invariant out@.len() >= old(out)@.len()
        decreases queue@.len()
    {
        let _ = queue.pop_front();
        out.push(item);
    }
}

}
fn main() {}

"""Bounded stand-in B1 (NOT a proof): the string parser of TopicFilter (`TryFrom<ByteString>` / `FromStr`, src/topic.rs) uses
`str::split`, iterator adaptors and `collect::<Result<..>>`, which the deductive verifier cannot read.  On every run src/topic.rs
is copied verbatim behind a 30-line stand-in for the two ntex_bytes types it uses, compiled with rustc alone (no dependency) and
run over EVERY string up to MAX_LEN over the alphabet {a, $, /, +, #, é}: the parser must accept exactly what the byte validator
`is_valid` accepts (that function is proved equal to MQTT section 4.7.1 in U6), produce the level kinds section 4.7 defines and
print back the input.  What the copy drops: the `#[cfg(test)]` module, the serde derives, `use ntex_bytes` -> `use crate::ntex_bytes`.
"""
import os
import re
import json
import time
import shutil
import hashlib
import tempfile
import subprocess

HERE = os.path.dirname(os.path.abspath(__file__))
ROOT = os.path.dirname(HERE)
MAX_LEN = 8
PROPS = ['C18']


def build_main(repo):
    src = open(os.path.join(repo, 'src', 'topic.rs')).read()
    m = re.search(r'(?m)^#\[cfg\(test\)\]', src)
    body = src[:m.start()] if m else src
    dropped = ['#[cfg(test)] module'] if m else []
    b2 = re.sub(r'(?m)^use ntex_bytes::ByteString;', 'use crate::ntex_bytes::ByteString;', body)
    if b2 != body:
        dropped.append('`use ntex_bytes::ByteString` points at the stand-in module')
    b3 = re.sub(r',\s*serde::Serialize,\s*serde::Deserialize', '', b2)
    if b3 != b2:
        dropped.append('serde derives')
    shim = open(os.path.join(ROOT, 'bounded', 'b1_shim.rs')).read()
    har = open(os.path.join(ROOT, 'bounded', 'b1_harness.rs')).read()
    return shim + '\npub mod topic {\n' + b3 + '\n}\n' + har, dropped


def run(repo, want_props, use_cache=True):
    if not set(PROPS) & set(want_props):
        return None
    main, dropped = build_main(repo)
    key = hashlib.sha256((main + '|%d' % MAX_LEN).encode()).hexdigest()
    cdir = os.path.join(ROOT, '.cache', 'bounded')
    cpath = os.path.join(cdir, key + '.json')
    if use_cache and os.environ.get('VERIF_NO_CACHE') != '1' and os.path.exists(cpath):
        res = json.load(open(cpath))
        res['cached'] = True
        return _package(res, dropped)
    tmp = tempfile.mkdtemp(prefix='verif-b1-')
    res = {'cached': False}
    try:
        with open(os.path.join(tmp, 'main.rs'), 'w') as fh:
            fh.write(main)
        t0 = time.time()
        p = subprocess.run(['rustc', '--edition', '2024', '-O', '-A', 'warnings', 'main.rs', '-o', 'b1'], cwd=tmp,
                           stdout=subprocess.PIPE, stderr=subprocess.STDOUT, universal_newlines=True)
        res['build_rc'] = p.returncode
        res['build_out'] = p.stdout[-3000:]
        if p.returncode == 0:
            q = subprocess.run(['./b1', str(MAX_LEN)], cwd=tmp, stdout=subprocess.PIPE, stderr=subprocess.STDOUT,
                               universal_newlines=True, timeout=600)
            res['run_rc'] = q.returncode
            res['run_out'] = q.stdout[-3000:]
        res['wall_s'] = time.time() - t0
    finally:
        shutil.rmtree(tmp, ignore_errors=True)
    os.makedirs(cdir, exist_ok=True)
    with open(cpath, 'w') as fh:
        json.dump(res, fh)
    return _package(res, dropped)


def _package(res, dropped):
    status = 'UNKNOWN'
    witness = None
    cases = accepted = 0
    out = res.get('run_out', '')
    if res.get('build_rc') != 0:
        status = 'BUILD-FAILED'     # the file left what the stand-in can host: undecided, never an alarm
    elif res.get('run_rc') == 0 and out.startswith('OK'):
        status = 'SUCCESS'
        mm = re.search(r'cases=(\d+) accepted=(\d+)', out)
        if mm:
            cases, accepted = int(mm.group(1)), int(mm.group(2))
    elif 'MISMATCH' in out:
        status = 'FAILURE'
        ml = [l for l in out.split('\n') if l.startswith('MISMATCH')][0]
        mi = re.search(r'input=("(?:[^"\\]|\\.)*")', ml)
        witness = {'failed': True, 'input': json.loads(mi.group(1)) if mi else None, 'observation': ml,
                   'note': 'the input was run through the parser text copied verbatim from /repo/src/topic.rs; replay: TopicFilter::from_str(input)'}
    else:
        status = 'CRASHED'
    return {
        'check': {'id': 'B1/topic_filter_parser_agrees_with_the_section_4_7_validator_and_level_kinds/bounded', 'props': PROPS, 'status': status,
                  'fn': 'TryFrom<ByteString> for TopicFilter / FromStr', 'file': 'src/topic.rs', 'repo': 'src/topic.rs',
                  'bound': 'every string of length 0..=%d over the alphabet {a, $, /, +, #, é}' % MAX_LEN,
                  'cases': cases, 'accepted': accepted, 'witness': witness,
                  'output': (res.get('build_out', '') if status == 'BUILD-FAILED' else out)[-1500:]},
        'cmd': 'rustc --edition 2024 -O <stand-in for ntex_bytes + src/topic.rs verbatim + bounded/b1_harness.rs>; ./b1 %d (%.1fs%s)' % (
            MAX_LEN, res.get('wall_s', 0.0), '; cached result for identical text' if res.get('cached') else ''),
        'trusted': ['B1 (bounded, not a proof): rustc; bounded/b1_shim.rs stands in for ntex_bytes::{ByteString, Bytes} (slice_ref copies instead of sharing); dropped from the copy: %s' % '; '.join(dropped)],
        'wall_s': res.get('wall_s', 0.0),
        'run': type('R', (), {'name': 'B1'})(),
    }


if __name__ == '__main__':
    import sys
    r = run(sys.argv[1] if len(sys.argv) > 1 else '/repo', ['C18'], use_cache=False)
    print(json.dumps(r['check'], indent=1)[:1500])
    print(r['cmd'])

#!/usr/bin/env python3
"""regenerate MANIFEST.json from contracts/index.json (single source of truth)"""
import json, os
ROOT = os.path.dirname(os.path.dirname(os.path.abspath(__file__)))
idx = json.load(open(os.path.join(ROOT, 'contracts', 'index.json')))
ALL = ['C%02d' % i for i in range(1, 21)]
checks = []
for p in ALL:
    if p not in idx['properties']:
        continue
    pi = idx['properties'][p]
    checks.append({
        'property_id': p,
        'quick_cmd': './check %s --tier quick' % p,
        'thorough_cmd': './check %s --tier thorough' % p,
        'evidence_file': '/verif/evidence/%s.json' % p,
        'replay_cmd_template': './check %s --replay {path}' % p,
        'engine': 'verus' + ('+kani' if pi.get('kani') else ''),
        'level_claimed': {
            'category': 'proof',
            'text': pi.get('level_text', 'Deductive proof (Verus, unbounded) of contracts spliced onto the functions of /repo extracted mechanically on every run: ' + pi.get('covers', '')),
            'design_ref': pi.get('design_ref', 'DESIGN.md §4, §5 ' + p),
        },
        'level_note': pi.get('level_note', 'Trusted: Verus/Z3, the extractor and its rewrite rules (vx/extract.py), shim contracts for foreign crates (vx/prelude), caller-side assumptions listed in the evidence file. ' + '; '.join(pi.get('assumptions', []))),
        'technique': pi.get('technique', 'contract-based deductive verification (Verus) of mechanically extracted real functions'),
    })
na = [{'property_id': p, 'reason': r} for p, r in sorted(idx.get('not_applicable', {}).items())]
man = {
    'version': 1,
    'setup_cmd': idx.get('setup_cmd', 'true'),
    'hooks': {'guard': 'ntex_rs_ntex_mqtt_verif', 'enable': 'no hooks: nothing in /repo is changed for verification; the guard name is reserved and unused',
              'baseline_off_cmd': 'cd /repo && cargo test --workspace --no-fail-fast --offline', 'source_commits': [], 'add_only': True},
    'engines': [{'name': 'verus', 'path': 'vx/driver.py', 'serves_properties': [c['property_id'] for c in checks],
                 'kind_free_text': 'mechanical extractor + contract splicer + Verus 0.2026.09.13'}],
    'checks': checks,
    'not_applicable': na,
    'notes': idx.get('notes', ''),
}
json.dump(man, open(os.path.join(ROOT, 'MANIFEST.json'), 'w'), indent=1)
print('MANIFEST.json: %d checks, %d not_applicable' % (len(checks), len(na)))

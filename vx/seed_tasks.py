#!/usr/bin/env python3
"""usage: vx/seed_tasks.py <letter> [Cxx ...]   — prepares, for every claimed property (or the given ones), a scratch git worktree of
/repo under /tmp/mut/<Cxx><letter> with a TASK.md that asks an independent agent for one realistic property-breaking change.  The
agent is given ONLY the property text, one-sentence summaries of the earlier changes to avoid, and that worktree (nothing from
/verif).  Deliverables are expected in <worktree>/out/ (patch.diff, demo_<id>.rs, meta.json); confirm them with
vx/confirm_seeded.sh, try them with vx/trymut.sh, register them under seeded/<Cxx>-<letter>/, and remove the worktree with
`git -C /repo worktree remove --force <dir>` as soon as the deliverables are copied."""
import json, re, os, subprocess, sys
os.chdir(os.path.join(os.path.dirname(os.path.abspath(__file__)), '..'))
letter = sys.argv[1]
only = sys.argv[2:]
props = {json.loads(l)['id']: json.loads(l) for l in open('properties.jsonl') if l.strip()}
na = set(json.load(open('contracts/index.json')).get('not_applicable', {}))
earlier = {}
for d in sorted(os.listdir('seeded')):
    m = json.load(open('seeded/%s/meta.json' % d))
    s = re.split(r'(?<=[.;])\s', m.get('summary', ''))[0][:300]
    earlier.setdefault(d.split('-')[0], []).append((m.get('files', []), s))
for pid in sorted(props):
    if pid in na or (only and pid not in only):
        continue
    wid = pid + letter
    wd = '/tmp/mut/' + wid
    os.makedirs('/tmp/mut', exist_ok=True)
    if not os.path.exists(wd):
        subprocess.run(['git', '-C', '/repo', 'worktree', 'add', '--detach', wd, 'HEAD'], check=True, capture_output=True)
    os.makedirs(wd + '/out', exist_ok=True)
    p = props[pid]
    prev = '\n'.join('- (%s) %s' % (', '.join(f), s) for f, s in earlier.get(pid, []))
    task = """# Task: write one realistic property-breaking change to ntex-mqtt

You work ONLY inside the scratch git worktree `{wd}` (a checkout of the Rust crate ntex-mqtt, an MQTT v3.1.1/v5 client/server
framework for the ntex async runtime). Do not read or write anything under /repo or /verif. There is no network: always pass
`--offline` to cargo and use `CARGO_TARGET_DIR={wd}/target` together with `CARGO_INCREMENTAL=0`. Disk space is shared and tight: do
not create additional target directories or copies of the worktree.

## The property (this is all you are told about what must hold)

id: {pid}
title: {title}

statement: {statement}

quantified over: {quant}

why the existing tests cannot settle it: {why}

code the property is anchored in: {anchors}

## What to produce

A small change to the crate's source (under `src/` only) that **breaks this property** while (1) the crate still compiles without new
warnings, (2) the existing test-suite still passes completely (`cargo test --workspace --no-fail-fast --offline`: 215 tests), and
(3) a demonstration you write, `tests/demo_{wid}.rs` (an integration test that uses the crate's public API; no test-only hooks in
`src/`), **fails with your change and passes on the unchanged tree**, deterministically and in under a minute.

The change should look like something a maintainer could plausibly commit by mistake, and it must need something specific to
manifest (a particular interleaving, a failure at a particular point, a multi-step sequence, an unusual input or configuration value,
or two cooperating sites). Look for a part of the anchored code that none of the earlier changes listed below has touched, and make
yours different in kind from them:
{prev}

## Deliverables (all under `{wd}/out/`)

- `patch.diff` — `git diff -- src` of your change (must apply with `git apply` to the unchanged worktree).
- `demo_{wid}.rs` — the demonstration test file.
- `meta.json` — keys "property", "summary", "needs", "files", "commands", "suite_with_change", "demo_with_change", "demo_without_change".

Verify all three claims yourself before finishing, delete `{wd}/target` when done, leave the change applied, and reply with a
five-line summary. If you cannot find a change that satisfies every condition, say so plainly.
""".format(wd=wd, pid=pid, wid=wid, title=p['title'], statement=p['statement'], quant=p['quantifier']['text'], why=p['why_tests_cant'],
           anchors=json.dumps(p['anchors'], indent=1), prev=prev)
    open(wd + '/TASK.md', 'w').write(task)
    print(wid)

#!/usr/bin/env python3
"""prints the proof aids + clauses for a v5 property loop of the form
       while prop_src.has_remaining() { match prop_src.get_u8() { pt::X => field.read_value(prop_src)?, .. pt::USER => ups.push(UserProperty::decode(prop_src)?), _ => return Err(MalformedPacket) } }
   usage: gen_prop_loop.py <blk expr at the take_properties anchor> <ups var or -> field:id:Type:resultpath ...
   (a one-off generator: its output is pasted into the contract file; nothing runs it at check time)"""
import sys
ups = sys.argv[1]
fields = [a.split(':') for a in sys.argv[2:]]
print("//@ before `match prop_src.get_u8() {`")
print("//@   let ghost off0: int = blk.len() - prop_src@.len();")
print("//@   let ghost id0: u8 = prop_src@[0];")
if ups != '-':
    print("//@   let ghost ups0 = %s@;" % ups)
print("//@   proof { assert(blk[off0] == id0); assert(prop_src@.skip(1) == blk.skip(off0 + 1)); }")
print("//@ after `_ => return Err(DecodeError::MalformedPacket), }`")
print("//@   proof {")
for f, i, t, _ in fields:
    print("//@       if id0 == %su8 { assert(prop_at::<%s>(blk, off0, %su8, %s->0)); }" % (i, t, i, f))
if ups != '-':
    print("//@       if id0 == 0x26u8 { let v = %s@[%s@.len() - 1]; assert(prop_at::<(ByteString, ByteString)>(blk, off0, 0x26u8, v)); assert(%s@ == ups0.push(v)); lemma_ups_push(blk, ups0, v, off0); } else { assert(%s@ == ups0); }" % (ups, ups, ups, ups))
print("//@   }")
print("//@   invariant")
print("//@     is_suffix(prop_src@, blk),")
for f, i, t, _ in fields:
    print("//@     %s is Some ==> exists|j: int| prop_at::<%s>(blk, j, %su8, %s->0)," % (f, t, i, f))
if ups != '-':
    print("//@     ups_from_block(blk, %s@)," % ups)
print("//@     prop_src@.len() == blk.len() ==> " + ' && '.join(['%s is None' % f for f, _, _, _ in fields] + (['%s@.len() == 0' % ups] if ups != '-' else [])) + ",")

#!/bin/bash
# regression of the checks themselves:
#   every seeded property-breaking change (seeded/*/patch.diff) must be reported by the checks named in its meta.json,
#   no behaviour-preserving refactoring (refactors/*.diff) may raise an alarm (exit 1) in any check.
cd "$(dirname "$0")/.."
fail=0
for d in seeded/*/; do
  id=$(basename $d)
  checks=$(python3 -c "import json;print(' '.join(json.load(open('$d/meta.json'))['checks_expected_to_catch']))")
  T=$(mktemp -d /tmp/verif-rg-XXXXXX); cp -r /repo/src $T/src
  if ! (cd $T && patch -p1 -s < /verif/$d/patch.diff); then echo "SEEDED $id: patch does not apply"; rm -rf $T; continue; fi
  for c in $checks; do
    VERIF_REPO=$T VERIF_OUT=$T/out ./check $c >/dev/null 2>&1; rc=$?
    if [ $rc -eq 1 ]; then echo "SEEDED $id $c: caught"; else echo "SEEDED $id $c: NOT caught (rc=$rc)"; fail=1; fi
  done
  rm -rf $T
done
for p in refactors/*.diff; do
  T=$(mktemp -d /tmp/verif-rg-XXXXXX); cp -r /repo/src $T/src
  if ! (cd $T && patch -p1 -s < /verif/$p); then echo "REFACTOR $p: patch does not apply"; rm -rf $T; continue; fi
  res=""
  for c in $(python3 -c "import json;print(' '.join(sorted(json.load(open('contracts/index.json'))['properties'])))"); do
    VERIF_REPO=$T VERIF_OUT=$T/out ./check $c >/dev/null 2>&1; rc=$?
    if [ $rc -eq 1 ]; then res="$res $c:ALARM"; fail=1; elif [ $rc -eq 2 ]; then res="$res $c:undecided"; fi
  done
  echo "REFACTOR $(basename $p):${res:- quiet}"
  rm -rf $T
done
exit $fail

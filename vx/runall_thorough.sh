#!/bin/sh
# run every claimed check (thorough tier) and summarise
cd "$(dirname "$0")/.."
for p in $(python3 -c "import json;print(' '.join(sorted(json.load(open('contracts/index.json'))['properties'])))"); do
  t0=$(date +%s)
  out=$(./check $p --tier thorough 2>&1); rc=$?
  echo "$p rc=$rc $(( $(date +%s) - t0 ))s $(echo "$out" | grep -c '^KNOWN-FINDING') known | $(echo "$out" | grep -E '^OK|^VIOLATION|^UNDECIDED' | head -3 | tr '\n' ' ')"
  python3 - "$p" <<'PY'
import json,sys
e=json.load(open('evidence/%s.json'%sys.argv[1]))
t=e['coverage'].get('thorough',{})
print('   unstable:',t.get('unstable_obligations'),' seeded:',[(x['seeded'],x['result']) for x in t.get('seeded_changes',[])])
PY
done

#!/usr/bin/env python3
"""lists EVERY failing obligation of every unit, whatever property it is attributed to (self-check of the attribution:
a failure that no claimed property sees would be a blind spot)"""
import sys, os, json
sys.path.insert(0, os.path.dirname(os.path.abspath(__file__)))
import driver
ix = driver.load_index()
units = sorted(set(u for p in ix['properties'].values() for u in p['units']))
known = set(k['obligation'] for k in driver.load_known().get('findings', []))
claimed = set(ix['properties'])
bad = 0
for u in units:
    run = driver.run_unit(u, 'quick', want_probe=False)
    for f in run.failures:
        seen_by = [p for p in f['props'] if p in claimed and u in ix['properties'][p]['units']]
        tag = 'known' if f['id'] in known else 'FAIL'
        if tag == 'FAIL' or not seen_by:
            print(u, tag, f['id'][:150], 'props=%s seen_by=%s' % (f['props'], seen_by))
            bad += 1
    for e in run.frontend_errors[:1]:
        print(u, 'FRONTEND', e[:200]); bad += 1
print('units checked: %d, problems: %d' % (len(units), bad))

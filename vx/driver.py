#!/usr/bin/env python3
"""check driver: ./check <Cxx> [--tier quick|thorough]

exit 0  property held on everything checked (known findings are printed)
exit 1  VIOLATION property=<id> replay=<path> ...
exit 2  undecided (anchor lost, code left the verifier's subset, tool failure)
"""
import sys
import os
import re
import json
import time
import hashlib
import shutil
import subprocess
import tempfile

HERE = os.path.dirname(os.path.abspath(__file__))
ROOT = os.path.dirname(HERE)
sys.path.insert(0, HERE)

import extract  # noqa: E402
from rustlex import AnchorLost, norm_ws  # noqa: E402

REPO = os.environ.get('VERIF_REPO', '/repo')
CONTRACTS = os.path.join(ROOT, 'contracts')
PRELUDE = os.path.join(HERE, 'prelude')
CACHE = os.path.join(ROOT, '.cache')
VERUS_FLAGS = ['--edition', '2024', '--multiple-errors', '100', '--time', '--output-json', '--error-format=json']


class Undecided(Exception):
    pass


def load_index():
    with open(os.path.join(CONTRACTS, 'index.json')) as fh:
        return json.load(fh)


def verus_version():
    try:
        out = subprocess.run(['verus', '--version'], stdout=subprocess.PIPE, stderr=subprocess.STDOUT, universal_newlines=True).stdout
        mm = re.search(r'Version:\s*(\S+)', out)
        return mm.group(1) if mm else norm_ws(out)[:60]
    except Exception as e:  # pragma: no cover
        return 'unknown'


def run_verus(data, tag, extra_flags=(), use_cache=True, wall_limit=None):
    """returns dict(diags=[...], summary={...}, wall_s, cached)"""
    key = hashlib.sha256(data + b'\0' + ' '.join(VERUS_FLAGS + list(extra_flags)).encode() + verus_version().encode()).hexdigest()
    cdir = os.path.join(CACHE, 'verus')
    cpath = os.path.join(cdir, key + '.json')
    if use_cache and os.environ.get('VERIF_NO_CACHE') != '1' and os.path.exists(cpath):
        with open(cpath) as fh:
            r = json.load(fh)
        r['cached'] = True
        return r
    tmp = tempfile.mkdtemp(prefix='verif-vx-')
    try:
        f = os.path.join(tmp, tag + '.rs')
        with open(f, 'wb') as fh:
            fh.write(data)
        t0 = time.time()
        # wall-clock guard: a query on which the solver does not come back (seen with bit-vector heavy specs, where z3 ignores
        # the rlimit) is a resource error (undecided), never a hang of the check and never an alarm
        limit = float(wall_limit or os.environ.get('VERIF_VERUS_TIMEOUT', '1500'))
        pp = subprocess.Popen(['verus'] + VERUS_FLAGS + list(extra_flags) + [f], cwd=tmp, stdout=subprocess.PIPE, stderr=subprocess.PIPE,
                              universal_newlines=True, start_new_session=True)
        timed_out = False
        try:
            so, se = pp.communicate(timeout=limit)
        except subprocess.TimeoutExpired:
            timed_out = True
            try:
                os.killpg(pp.pid, 9)
            except OSError:
                pass
            so, se = pp.communicate()
        class _P(object):
            pass
        p = _P()
        p.stdout, p.stderr, p.returncode = so, se, pp.returncode
        wall = time.time() - t0
        diags = []
        if timed_out:
            diags.append({'level': 'error', 'message': 'verifier timed out after %d s of wall-clock time (VERIF_VERUS_TIMEOUT)' % int(limit),
                          'rendered': 'verifier timed out after %d s of wall-clock time' % int(limit), 'spans': []})
        for ln in p.stderr.split('\n'):
            ln = ln.strip()
            if ln.startswith('{'):
                try:
                    diags.append(json.loads(ln))
                except ValueError:
                    pass
        summary = {}
        try:
            js = json.loads(p.stdout[p.stdout.index('{'):])
            summary = js.get('verification-results', {})
            summary['smt_ms'] = js.get('times-ms', {}).get('smt', {}).get('total')
            summary['total_ms'] = js.get('times-ms', {}).get('total')
            fd = js.get('times-ms', {}).get('smt', {}).get('smt-run-module-times', [])
            summary['function_times'] = []
            for m in fd:
                for ft in m.get('function-breakdown', []):
                    summary['function_times'].append({'function': ft.get('function'), 'ms': ft.get('time'), 'success': ft.get('success')})
        except (ValueError, KeyError):
            pass
        r = {'diags': diags, 'summary': summary, 'wall_s': wall, 'rc': p.returncode, 'cached': False,
             'stderr_tail': p.stderr[-2000:] if not diags and p.returncode != 0 else ''}
    finally:
        shutil.rmtree(tmp, ignore_errors=True)
    if use_cache and r.get('summary', {}).get('verified') is not None:
        # (only a run that came back with its summary is remembered: a killed or crashed verifier is not a result)
        os.makedirs(cdir, exist_ok=True)
        with open(cpath + '.tmp%d' % os.getpid(), 'w') as fh:
            json.dump(r, fh)
        os.replace(cpath + '.tmp%d' % os.getpid(), cpath)
    return r


VERIF_MSGS = [
    ('postcondition not satisfied', 'ensures'),
    ('precondition not satisfied', 'pre'),
    ('possible arithmetic underflow/overflow', 'arith'),
    ('possible division by zero', 'arith'),
    ('possible bit shift underflow/overflow', 'arith'),
    ('invariant not satisfied before loop', 'invariant-entry'),
    ('invariant not satisfied at end of loop body', 'invariant-preserved'),
    ('assertion failed', 'assert'),
    ('decreases not satisfied', 'decreases'),
    ('loop invariant not satisfied', 'invariant'),
    ('could not prove termination', 'decreases'),
    ('unreachable', 'unreachable'),
    ('cannot prove', 'other'),
    ('recommendation not met', 'recommends'),
    ('possible overflow', 'arith'),
    ('cannot show invariant holds', 'invariant'),
    ('possible arithmetic', 'arith'),
    ('constructed value may fail to meet its declared type invariant', 'other'),
    ('index out of bounds', 'pre'),
]
RESOURCE_MSGS = ('Resource limit (rlimit) exceeded', 'rlimit', 'timed out', 'timeout')


THOROUGH_VARIANTS = [
    ('seed=7', ['--smt-option', 'smt.random_seed=7']),
    ('seed=23', ['--smt-option', 'smt.random_seed=23']),
    ('rlimit=20,seed=101', ['--rlimit', '20', '--smt-option', 'smt.random_seed=101']),
]


class UnitRun(object):
    def __init__(self, name):
        self.name = name
        self.variants = []
        self.late_rescued = []
        self.aid_rescued = []
        self.inlined = []
        self.unstable = []
        self.extra_smt_ms = 0
        self.unit = None
        self.failures = []     # dict(id, props, kind, message, rendered, repo, fn)
        self.obligations = []  # dict(id, props, kind)
        self.frontend_errors = []
        self.resource_errors = []
        self.verus = None
        self.probe = None
        self.wall_s = 0.0


def enclosing_tmpl_fn(unit, data, off):
    """name of the hand-written fn / proof fn that encloses byte offset off"""
    txt = data[:off].decode('utf-8', 'replace')
    mm = None
    for mm in re.finditer(r'\b(?:proof\s+)?fn\s+(\w+)', txt):
        pass
    return mm.group(1) if mm else '?'


def span_text(sp):
    if not sp.get('text'):
        return ''
    parts = []
    for t in sp['text']:
        parts.append(t['text'][t['highlight_start'] - 1:t['highlight_end'] - 1])
    return norm_ws(' '.join(parts))


def _own_span(sp):
    """a span inside a std macro (unreachable!, panic!, assert!) is replaced by the call site in the extracted file"""
    cur = sp
    for _ in range(8):
        fname = str(cur.get('file_name', ''))
        if '/verif-vx-' in fname or not (fname.startswith('/rustc/') or 'library/' in fname):
            break
        exp = cur.get('expansion')
        if not exp or not exp.get('span'):
            break
        nxt = dict(exp['span'])
        nxt['is_primary'] = sp.get('is_primary')
        if not nxt.get('label'):
            nxt['label'] = sp.get('label')
        cur = nxt
    return cur


def classify(unit, data, diags, run):
    for d in diags:
        if d.get('level') != 'error':
            continue
        msg = d.get('message', '')
        if msg.startswith('aborting due to'):
            continue
        kind = None
        for pat, k in VERIF_MSGS:
            if pat in msg:
                kind = k
                break
        spans = [_own_span(s_) for s_ in d.get('spans', [])]
        prim = next((s for s in spans if s.get('is_primary')), spans[0] if spans else None)
        if any(r in msg for r in RESOURCE_MSGS):
            run.resource_errors.append(norm_ws(d.get('rendered', msg))[:400])
            continue
        if kind is None or prim is None:
            run.frontend_errors.append(d.get('rendered', msg)[:1500])
            continue
        pc = unit.chunk_at(prim['byte_start'])
        org = pc.origin if pc else {'k': 'tmpl'}
        props = None
        detail = None
        repo_loc = None
        sec_clause = None
        fn = None
        for s in [prim] + [x for x in spans if x is not prim]:
            c = unit.chunk_at(s['byte_start'])
            if c is None:
                continue
            o = c.origin
            if o['k'] == 'repo':
                if repo_loc is None:
                    repo_loc = '%s:%d' % (o['file'], o['line'] + data[c.start:s['byte_start']].count(b'\n'))
                if fn is None and o.get('fn'):
                    fn = o['fn']
            elif o['k'] == 'clause':
                if fn is None:
                    fn = o['fn']
                if sec_clause is None and (s is not prim or kind == 'ensures'):
                    sec_clause = o
            elif o['k'] == 'tmpl' and s is not prim and (s.get('label') or '').startswith('failed') and sec_clause is None:
                sec_clause = {'label': None, 'text': span_text(s), 'props': None, 'fn': 'tmpl'}
                # a clause of a hand-written stub / lemma may carry its own `//#Cxx:label` at the end of its line
                le = data.find(b'\n', s['byte_end'])
                line_tail = data[s['byte_end']:le if le >= 0 else len(data)].decode('utf-8', 'replace')
                ml = re.search(r'//#\s*(?:([A-Z0-9,]+):)?([\w.\-]+)\s*$', line_tail)
                if ml:
                    sec_clause['label'] = ml.group(2)
                    if ml.group(1):
                        sec_clause['props'] = ml.group(1).split(',')
        if fn is None:
            fn = 'tmpl::' + enclosing_tmpl_fn(unit, data, prim['byte_start'])
        if kind == 'ensures':
            if sec_clause:
                detail = sec_clause.get('label') or sec_clause.get('text')
                props = sec_clause.get('props')
            else:
                detail = span_text(prim)
        elif kind == 'pre':
            callee = (sec_clause.get('label') or sec_clause.get('text')) if sec_clause else '?'
            detail = '%s @ %s' % (callee, span_text(prim))
            if sec_clause and sec_clause.get('props'):
                props = sec_clause['props']
        elif kind.startswith('invariant'):
            if org['k'] == 'clause':
                detail = org.get('label') or org.get('text')
                props = org.get('props')
            else:
                detail = span_text(prim)
        elif kind in ('assert', 'decreases'):
            if org['k'] == 'clause':
                detail = org.get('label') or org.get('text') or span_text(prim)
                props = org.get('props')
            else:
                detail = span_text(prim)
        else:
            detail = span_text(prim)
        if props is None:
            if fn in unit.fns:
                props = unit.fns[fn]['props']
            else:
                props = lemma_props(unit, fn, failing=True)
        if (kind in ('arith', 'unreachable') or (kind == 'pre' and not sec_clause)) and aid_free_site(org) and 'C16' not in props:
            # a site of the real code that can panic (failed assert! / unwrap / index / overflow / unreachable!): whatever else the
            # function is claimed for, this is a failure of panic freedom
            props = list(props) + ['C16']
        oid = '%s/%s/%s/%s' % (run.name, fn, kind, detail)
        if kind == 'recommends':
            continue
        aid = None
        if org.get('k') == 'clause' and org.get('section') in ('hint', 'invariant') and org.get('key') is not None:
            aid = [org.get('fn'), org.get('key')]
        run.failures.append({'id': oid, 'props': props, 'kind': kind, 'message': msg, 'fn': fn, 'aid': aid,
                             'rendered': d.get('rendered', ''), 'repo': repo_loc, 'site': site_text(repo_loc),
                             'repo_fn': unit.fns.get(fn, {}).get('path'), 'repo_file': unit.fns.get(fn, {}).get('file')})


def aid_free_site(org):
    """the failing site is text of the repository (not a proof aid, not template text)"""
    return org.get('k') not in ('clause', 'tmpl', 'probe')


def site_text(repo_loc):
    """the source line a failure is reported at (an exit of the function, a call site), whitespace-normalised: known findings
    name the sites they cover, so that the same clause failing at another place is still reported"""
    if not repo_loc:
        return None
    try:
        rel, ln = repo_loc.rsplit(':', 1)
        with open(os.path.join(REPO, rel)) as fh:
            lines = fh.read().split('\n')
        return ' '.join(lines[int(ln) - 1].split())
    except Exception:
        return None


def lemma_props(unit, fn, failing=False):
    """a lemma / hand-written proof function counts for the properties it is tagged with (default: the unit's);
    when it FAILS, everything of the unit that may call it is unproved: the failure carries every property of the unit"""
    if failing:
        allp = list(unit.unit_props)
        for f in unit.fns.values():
            for q in f['props']:
                if q not in allp:
                    allp.append(q)
        for c in unit.clauses:
            for q in c['props']:
                if q not in allp:
                    allp.append(q)
        for v in unit.tmpl_props.values():
            for q in v:
                if q not in allp:
                    allp.append(q)
        return allp
    return list(unit.tmpl_props.get(fn.replace('tmpl::', ''), unit.unit_props))


def enumerate_obligations(unit, run):
    obs = []
    for c in unit.clauses:
        if c['section'] == 'requires':
            continue
        if c['section'] == 'hint' and not re.match(r'(assert|assume)\b', c['text']):
            continue
        lab = c['label'] or c['text']
        obs.append({'id': '%s/%s/%s/%s' % (run.name, c['fn'], c['section'], lab), 'props': c['props'], 'kind': c['section'], 'fn': c['fn']})
    for fid, f in unit.fns.items():
        if f['has_body'] and not f['trusted']:
            obs.append({'id': '%s/%s/safety' % (run.name, fid), 'props': f['props'], 'kind': 'safety', 'fn': fid,
                        'what': 'every arithmetic, index, unwrap and callee-precondition site in the body'})
    for rel_, fn_ in sorted(getattr(unit, 'guard_seen', ()) or ()):
        obs.append({'id': '%s/%s/guard/no_refcell_guard_created_in_a_scrutinee_is_alive_across_an_await' % (run.name, fn_), 'props': ['C16'], 'kind': 'guard', 'fn': fn_,
                    'what': 'checked on the text of %s (the cells themselves are erased from the verified text): no match / if let / while let creates a RefCell guard in its scrutinee and awaits in its body' % rel_})
    for lm in unit.lemmas:
        obs.append({'id': '%s/tmpl::%s/lemma' % (run.name, lm), 'props': lemma_props(unit, lm), 'kind': 'lemma', 'fn': 'tmpl::' + lm})
    run.obligations = obs



def unresolved_names(diags):
    """names of functions / methods the extracted text calls but does not define (rustc E0425 / E0599)"""
    out = set()
    for d in diags:
        if d.get('level') != 'error':
            continue
        code = (d.get('code') or {}).get('code')
        msg = d.get('message', '')
        mm = None
        if code == 'E0425':
            mm = re.search(r'cannot find function `(\w+)`', msg)
        elif code == 'E0599':
            mm = re.search(r'no (?:method|function or associated item|associated function or constant|associated item) named `(\w+)` found', msg)
        if mm and not mm.group(1).startswith('vx_'):
            mt = re.search(r'found for (?:struct|enum|type alias) `(?:\w+::)*(\w+)(?:<[^`]*>)?`', msg) if code == 'E0599' and 'associated' in msg else None
            if mt and mm.group(1) in ('new', 'default', 'from', 'into', 'with', 'build'):
                # a common name: only the calls written with this type are meant
                out.add('%s::%s' % (mt.group(1), mm.group(1)))
            else:
                out.add(mm.group(1))
        if code == 'E0424':
            # `self.helper(..)` left in a block (a method of the enclosing type that the block's substitutions do not name):
            # the helper's name is taken from the source line the error points at
            for sp in d.get('spans', []):
                for t in sp.get('text', []):
                    for m2 in re.finditer(r'\bself(?:\s*\.\s*\w+)*\s*\.\s*([A-Za-z_]\w*)\s*\(', t.get('text', '')):
                        if not m2.group(1).startswith('vx_'):
                            out.add(m2.group(1))
    return out


def blocks_that_do_not_compile(unit, diags):
    """names of `//@block` functions inside which the compiler (not the verifier) reports an error; empty unless EVERY compiler
    error of the unit lies inside such a block (then leaving those blocks out lets the rest of the unit be decided)"""
    out = set()
    for d in diags:
        if d.get('level') != 'error' or not (d.get('code') or {}).get('code'):
            continue
        prim = next((s_ for s_ in d.get('spans', []) if s_.get('is_primary')), None)
        c = unit.chunk_at(prim['byte_start']) if prim else None
        fn = (c.origin.get('fn') if c else None)
        info = unit.fns.get(fn) if fn else None
        if not info or not str(info.get('path') or '').split(' :: ')[-1].startswith('block '):
            return set()
        out.add(fn)
    return out


def aids_that_do_not_compile(unit, diags):
    """(fn, key) of proof aids inside which the compiler reports an error (unknown name, type error)"""
    out = set()
    for d in diags:
        if d.get('level') != 'error' or not (d.get('code') or {}).get('code'):
            continue
        prim = next((s_ for s_ in d.get('spans', []) if s_.get('is_primary')), None)
        c = unit.chunk_at(prim['byte_start']) if prim else None
        org = c.origin if c else {}
        if org.get('k') == 'clause' and org.get('section') in ('hint', 'invariant') and org.get('key') is not None:
            out.add((org.get('fn'), org.get('key')))
    return out


def aid_renames_from(unit, diags):
    """E0425 `cannot find value X` inside a proof aid, for which the compiler suggests `self.X`: {X: 'self.X'}"""
    out = {}
    for d in diags:
        if d.get('level') != 'error' or (d.get('code') or {}).get('code') != 'E0425':
            continue
        mm = re.search(r'cannot find value `(\w+)` in this scope', d.get('message', ''))
        if not mm:
            continue
        prim = next((s_ for s_ in d.get('spans', []) if s_.get('is_primary')), None)
        if prim is None:
            continue
        c = unit.chunk_at(prim['byte_start'])
        org = c.origin if c else {}
        if not (org.get('k') == 'clause' and org.get('section') in ('hint', 'invariant')):
            continue
        for ch in d.get('children', []):
            for sp in ch.get('spans', []):
                if sp.get('suggested_replacement') in ('self.' + mm.group(1), 'self.'):
                    out[mm.group(1)] = 'self.' + mm.group(1)
    return out


AID_RENAMES = {}
INLINE_FLIP = {}
SKIP_BLOCKS = {}
DROP_AIDS = {}


def build(name, inline=()):
    unit = extract.Unit(name, REPO)
    unit.inline_names = set(inline)
    unit.tmpl_props = {}
    unit.aid_renames = dict(AID_RENAMES.get(name, {}))
    unit.inline_flip = INLINE_FLIP.get(name, False)
    unit.skip_blocks = set(SKIP_BLOCKS.get(name, ()))
    if not getattr(unit, 'drop_aids', None):
        unit.drop_aids = set(DROP_AIDS.get(name, ()))
    else:
        unit.drop_aids = set(unit.drop_aids) | set(DROP_AIDS.get(name, ()))
    extract.process_template(unit, os.path.join(CONTRACTS, name + '.vrs'), PRELUDE)
    # per-lemma property tags: `proof fn name(..) //#C10,C02`
    for c in unit.chunks:
        if c.origin['k'] == 'tmpl':
            mm = re.search(r'\bfn\s+(\w+).*//#\s*([A-Z0-9,]+)\s*$', c.text.rstrip('\n'))
            if mm:
                unit.tmpl_props[mm.group(1)] = mm.group(2).split(',')
    data = unit.finish()
    return unit, data


def build_late(name, inline=(), drop_aids=(), late=True):
    """same unit with every pure hint (lemma calls, asserts) moved to the end of its block (late), or with the given proof
    aids (fn, key) left out (drop_aids)"""
    unit = extract.Unit(name, REPO)
    unit.inline_names = set(inline)
    unit.tmpl_props = {}
    unit.late_hints = late
    unit.aid_renames = dict(AID_RENAMES.get(name, {}))
    unit.inline_flip = INLINE_FLIP.get(name, False)
    unit.skip_blocks = set(SKIP_BLOCKS.get(name, ()))
    if not getattr(unit, 'drop_aids', None):
        unit.drop_aids = set(DROP_AIDS.get(name, ()))
    else:
        unit.drop_aids = set(unit.drop_aids) | set(DROP_AIDS.get(name, ()))
    unit.drop_aids = set(drop_aids) | set(DROP_AIDS.get(name, ()))
    extract.process_template(unit, os.path.join(CONTRACTS, name + '.vrs'), PRELUDE)
    for c in unit.chunks:
        if c.origin['k'] == 'tmpl':
            mm = re.search(r'\bfn\s+(\w+).*//#\s*([A-Z0-9,]+)\s*$', c.text.rstrip('\n'))
            if mm:
                unit.tmpl_props[mm.group(1)] = mm.group(2).split(',')
    data = unit.finish()
    return unit, data


def build_probe(name, inline=()):
    """same unit, with `assert(false)` as first statement of every verified fn body:
    every one of them must FAIL, otherwise the fn's precondition (or a shim axiom)
    is contradictory and its proof is vacuous"""
    unit = extract.Unit(name, REPO)
    unit.tmpl_props = {}
    unit.probe = True
    unit.inline_names = set(inline)
    unit.aid_renames = dict(AID_RENAMES.get(name, {}))
    unit.inline_flip = INLINE_FLIP.get(name, False)
    unit.skip_blocks = set(SKIP_BLOCKS.get(name, ()))
    if not getattr(unit, 'drop_aids', None):
        unit.drop_aids = set(DROP_AIDS.get(name, ()))
    else:
        unit.drop_aids = set(unit.drop_aids) | set(DROP_AIDS.get(name, ()))
    extract.process_template(unit, os.path.join(CONTRACTS, name + '.vrs'), PRELUDE)
    data = unit.finish()
    return unit, data


def run_unit(name, tier, want_probe=True):
    run = UnitRun(name)
    t0 = time.time()
    unit, data = build(name)
    inline = set()
    pre = None
    for _round in range(3):
        # R24: a call of a repository function that is not under contract (unresolved name in the extracted text) is
        # replaced by that function's body; the unit is rebuilt until no such name is left (at most three rounds)
        pre = run_verus(data, name, (), tier != 'thorough')
        missing = unresolved_names(pre['diags'])
        missing -= inline
        if not missing:
            if inline and not INLINE_FLIP.get(name) and any((d.get('code') or {}).get('code') == 'E0308' and 'vx_self' in json.dumps(d.get('spans', [])) for d in pre['diags'] if d.get('level') == 'error'):
                # an inlined helper whose receiver binding has the wrong reference depth (the receiver variable was taken to
                # hold a reference but names a place, or the other way round): the other reading is tried once
                INLINE_FLIP[name] = True
                unit, data = build(name, inline)
                continue
            da = aids_that_do_not_compile(unit, pre['diags'])
            if da and not da <= set(DROP_AIDS.get(name, ())):
                # a proof aid that no longer compiles (it names a loop variable or local of code that is gone) is left out
                DROP_AIDS[name] = set(DROP_AIDS.get(name, ())) | da
                unit, data = build(name, inline)
                continue
            sk = blocks_that_do_not_compile(unit, pre['diags'])
            if sk and not sk <= set(SKIP_BLOCKS.get(name, ())):
                SKIP_BLOCKS[name] = set(SKIP_BLOCKS.get(name, ())) | sk
                unit, data = build(name, inline)
                continue
            rn = aid_renames_from(unit, pre['diags'])
            if rn and rn != AID_RENAMES.get(name):
                AID_RENAMES[name] = rn
                unit, data = build(name, inline)
                continue
            break
        inline |= missing
        unit, data = build(name, inline)
    run.inlined = sorted(inline)
    run.unit = unit
    run.data = data
    enumerate_obligations(unit, run)
    for gh in getattr(unit, 'guard_hazards', []) or []:
        loc_ = '%s:%d' % (gh['file'], gh['line'])
        run.failures.append({'id': '%s/%s/guard/no_refcell_guard_created_in_a_scrutinee_is_alive_across_an_await' % (name, gh['fn']),
                             'props': ['C16'], 'kind': 'guard', 'message': 'RefCell guard alive across .await', 'fn': gh['fn'], 'aid': None,
                             'rendered': 'the scrutinee `%s` creates a RefCell guard that lives to the end of the statement, whose body awaits: the cell is still borrowed while other calls run' % gh['scrutinee'],
                             'repo': loc_, 'site': site_text(loc_), 'repo_fn': gh['fn'], 'repo_file': gh['file']})
    from concurrent.futures import ThreadPoolExecutor
    pfut = None
    pex = None
    if want_probe:
        punit, pdata = build_probe(name, inline)
        pex = ThreadPoolExecutor(max_workers=1)
        pfut = pex.submit(run_verus, pdata, name + '_probe')
    vfuts = []
    vex = None
    if tier == 'thorough':
        # independent re-proofs: other SMT seeds and a doubled resource limit, never from the cache
        vex = ThreadPoolExecutor(max_workers=len(THOROUGH_VARIANTS))
        for vname, vflags in THOROUGH_VARIANTS:
            vfuts.append((vname, vex.submit(run_verus, data, name, vflags, False)))
    res = pre if (pre is not None and tier != 'thorough') else run_verus(data, name, (), tier != 'thorough')
    run.verus = res
    classify(unit, data, res['diags'], run)
    if res['rc'] != 0 and not res['diags']:
        run.frontend_errors.append('verus failed without diagnostics: ' + res.get('stderr_tail', ''))
    if run.failures and not run.frontend_errors:
        # second attempt: proof aids that only state facts are placed as late as possible in their block.
        # A function that verifies in either placement is proved (the aids are not part of the claim).
        try:
            lunit, ldata = build_late(name, inline)
            if ldata != data:
                lres = run_verus(ldata, name + '_late')
                lrun = UnitRun(name)
                classify(lunit, ldata, lres['diags'], lrun)
                if not lrun.frontend_errors and not lrun.resource_errors and lres['summary'].get('verified') is not None:
                    # a failing postcondition does not taint the other obligations of its function, a failing
                    # assert / precondition / invariant does (the verifier assumes it afterwards)
                    tainted = set(f['fn'] for f in lrun.failures if f['kind'] != 'ensures')
                    late_ids = set(f['id'] for f in lrun.failures)
                    keep = [f for f in run.failures if f['fn'] in tainted or f['id'] in late_ids]
                    rescued = sorted(set(f['id'] for f in run.failures) - set(f['id'] for f in keep))
                    if rescued:
                        run.late_rescued = rescued
                        run.failures = keep
        except (AnchorLost, extract.Unsupported):
            pass
    if run.failures and not run.frontend_errors and any(f.get('aid') for f in run.failures):
        # third attempt: a proof aid (hint, loop invariant) that no longer holds is left out, together with the aids that use
        # its ghost variables. Aids are never part of the claim: a function that verifies without them is proved; otherwise
        # the clauses that fail without them are reported next to the aid (the verifier assumes a failed aid afterwards,
        # which hides the clause it was written for).
        try:
            drop = set((f['aid'][0], f['aid'][1]) for f in run.failures if f.get('aid'))
            aunit, adata = build_late(name, inline, drop_aids=drop, late=False)
            # (bounded: without its aids a function may simply be too hard; then the first report stands)
            ares = run_verus(adata, name + '_noaid', (), True, float(os.environ.get('VERIF_NOAID_TIMEOUT', '150')))
            arun = UnitRun(name)
            classify(aunit, adata, ares['diags'], arun)
            if not arun.frontend_errors and not arun.resource_errors and ares['summary'].get('verified') is not None:
                afns = set(f['fn'] for f in arun.failures)
                rescued = [f for f in run.failures if f.get('aid') and f['fn'] not in afns]
                if rescued:
                    run.aid_rescued = sorted(set(f['id'] for f in rescued))
                    run.failures = [f for f in run.failures if f not in rescued]
                have = set(f['id'] for f in run.failures)
                bad_fns = set(f['fn'] for f in run.failures if f.get('aid'))
                for f in arun.failures:
                    if f['fn'] in bad_fns and f['id'] not in have and not f.get('aid'):
                        f['without_aid'] = True
                        run.failures.append(f)
                        have.add(f['id'])
        except (AnchorLost, extract.Unsupported):
            pass
    if vfuts:
        # a proof found under any seed is a proof: an obligation fails only if it fails in every variant
        run.variants = [{'variant': 'default', 'failed': sorted(set(f['id'] for f in run.failures)), 'resource': list(run.resource_errors),
                         'smt_ms': res['summary'].get('smt_ms'), 'wall_s': round(res['wall_s'], 2)}]
        clean = []   # per variant: (set of fns with a failure, hit a resource limit?)
        clean.append((set(f['fn'] for f in run.failures), bool(run.resource_errors)))
        all_res = bool(run.resource_errors)
        extra_ms = 0
        for vname, fut in vfuts:
            vres = fut.result()
            vrun = UnitRun(name)
            classify(unit, data, vres['diags'], vrun)
            ids = set(f['id'] for f in vrun.failures)
            run.variants.append({'variant': vname, 'failed': sorted(ids), 'resource': list(vrun.resource_errors),
                                 'smt_ms': vres['summary'].get('smt_ms'), 'wall_s': round(vres['wall_s'], 2)})
            extra_ms += vres['summary'].get('smt_ms') or 0
            if vrun.frontend_errors:
                run.frontend_errors.extend(vrun.frontend_errors)
            clean.append((set(f['fn'] for f in vrun.failures), bool(vrun.resource_errors)))
            all_res = all_res and bool(vrun.resource_errors)
            have = set(f['id'] for f in run.failures)
            run.failures.extend(f for f in vrun.failures if f['id'] not in have)
        vex.shutdown()
        # a failure is kept unless some variant verified the whole function without hitting a resource limit
        def proved_somewhere(f):
            return any((f['fn'] not in fns) and not resd for fns, resd in clean)
        run.unstable = sorted(set(f['id'] for f in run.failures if proved_somewhere(f)))
        run.failures = [f for f in run.failures if not proved_somewhere(f)]
        if not all_res:
            run.resource_errors = []
        run.extra_smt_ms = extra_ms
    if pfut is not None:
        pres = pfut.result()
        pex.shutdown()
    if want_probe and not run.frontend_errors:
        hit = set()
        for d in pres['diags']:
            if d.get('level') == 'error' and 'assertion failed' in d.get('message', ''):
                prim = next((s for s in d.get('spans', []) if s.get('is_primary')), None)
                if prim:
                    c = punit.chunk_at(prim['byte_start'])
                    if c is not None and c.origin.get('k') == 'probe':
                        hit.add(c.origin['fn'])
        expected = set(fid for fid, f in punit.fns.items() if f['has_body'] and not f['trusted'])
        run.probe = {'expected': len(expected), 'refuted': len(hit & expected), 'vacuous': sorted(expected - hit),
                     'wall_s': pres['wall_s'], 'cached': pres['cached']}
    run.wall_s = time.time() - t0
    return run


def load_known():
    p = os.path.join(ROOT, 'known_findings.json')
    if not os.path.exists(p):
        return {'findings': [], 'fixed': []}
    with open(p) as fh:
        return json.load(fh)


def main(argv):
    if len(argv) < 2:
        print('usage: check <Cxx> [--tier quick|thorough]', file=sys.stderr)
        return 2
    prop = argv[1]
    tier = os.environ.get('VERIF_TIER', 'quick')
    if '--tier' in argv:
        tier = argv[argv.index('--tier') + 1]
    seed = int(os.environ.get('VERIF_SEED', '0') or 0)
    t0 = time.time()
    index = load_index()
    if '--replay' in argv:
        return replay(prop, argv[argv.index('--replay') + 1])
    if prop not in index['properties']:
        print('property %s is not claimed (see MANIFEST.json not_applicable)' % prop, file=sys.stderr)
        return 2
    units = index['properties'][prop]['units']
    runs = []
    undecided = []
    from concurrent.futures import ThreadPoolExecutor

    def one(u):
        try:
            return run_unit(u, tier)
        except AnchorLost as e:
            return '%s: anchor lost: %s' % (u, e)
        except extract.Unsupported as e:
            return '%s: outside the extractor subset: %s' % (u, e)
    with ThreadPoolExecutor(max_workers=min(8, max(1, len(units)))) as ex:
        for res in ex.map(one, units):
            if isinstance(res, str):
                undecided.append(res)
            else:
                runs.append(res)
    import evidence
    extra = {}
    if index['properties'][prop].get('kani'):
        import kani
        try:
            extra['kani'] = kani.run(REPO, [prop])
            if extra['kani'].get('rc') not in (0, None) and not extra['kani'].get('any_failure'):
                undecided.append('kani did not complete: ' + extra['kani'].get('tail', '')[-600:])
        except AnchorLost as e:
            undecided.append('K1: anchor lost: %s' % e)
    if index['properties'][prop].get('bounded_check'):
        import bounded
        extra['bounded'] = bounded.run(REPO, [prop])
    if tier == 'thorough':
        extra['thorough'] = {
            'reproofs': dict((r.name, r.variants) for r in runs),
            'rule': 'every unit is re-verified from scratch (no cache) under three further solver configurations; an obligation counts as failed only if no configuration proves its function',
            'unstable_obligations': sorted(set(x for r in runs for x in r.unstable)),
            'aids_no_longer_needed': sorted(set(x for r in runs for x in r.aid_rescued)),
            'extra_solver_time_ms': sum(r.extra_smt_ms for r in runs),
        }
        if os.environ.get('VERIF_NO_SEEDED') != '1':
            extra['thorough']['seeded_changes'] = run_seeded(prop)
    return evidence.decide_and_report(prop, tier, seed, runs, undecided, load_known(), index, time.time() - t0, extra)


def replay(prop, path):
    """re-check the obligation named in a replay file against the current working tree"""
    with open(path) as fh:
        rec = json.load(fh)
    oid = rec['failed_obligation']
    print('replay: obligation %s (%s)' % (oid, rec.get('repo_location') or rec.get('repo_file') or ''))
    if rec.get('counterexample') and rec['counterexample'].get('kani_concrete_playback'):
        print('Kani concrete playback for the function text copied from /repo:')
        print(rec['counterexample']['kani_concrete_playback'])
    unit = oid.split('/', 1)[0]
    if unit == 'K1':
        import kani
        k = kani.run(REPO, [prop], use_cache=False)
        bad = [h for h in k['harnesses'] if h['id'] == oid and h['status'] == 'FAILURE']
        still = bool(bad)
        if bad and bad[0].get('witness'):
            print(bad[0]['witness'].get('kani_concrete_playback', ''))
    else:
        run = run_unit(unit, 'quick', want_probe=False)
        still = any(f['id'] == oid for f in run.failures)
        for f in run.failures:
            if f['id'] == oid:
                print(f['rendered'])
    if still:
        print('VIOLATION property=%s replay=%s%s' % (prop, path, '' if unit == 'K1' else ' no-failing-input-found'))
        return 1
    print('replay: the obligation is discharged on the current tree')
    return 0


def run_seeded(prop):
    """self-test of the check: every recorded property-breaking change for this property (seeded/<id>/patch.diff)
    is applied to a scratch copy of the working tree and the quick check is run against that copy.
    The outcome is recorded in the evidence; it never changes the verdict on /repo itself."""
    out = []
    sdir = os.path.join(ROOT, 'seeded')
    if not os.path.isdir(sdir):
        return out
    for d in sorted(os.listdir(sdir)):
        mp = os.path.join(sdir, d, 'meta.json')
        pp = os.path.join(sdir, d, 'patch.diff')
        if not (os.path.exists(mp) and os.path.exists(pp)):
            continue
        with open(mp) as fh:
            meta = json.load(fh)
        if prop not in meta.get('checks_expected_to_catch', [meta.get('property')]):
            continue
        tmp = tempfile.mkdtemp(prefix='verif-seeded-')
        try:
            shutil.copytree(os.path.join(REPO, 'src'), os.path.join(tmp, 'src'))
            ap = subprocess.run(['patch', '-p1', '-s', '-i', pp], cwd=tmp, stdout=subprocess.PIPE, stderr=subprocess.STDOUT, universal_newlines=True)
            if ap.returncode != 0:
                out.append({'seeded': d, 'result': 'patch does not apply to the current tree', 'detail': ap.stdout[-300:]})
                continue
            env = dict(os.environ, VERIF_REPO=tmp, VERIF_OUT=os.path.join(tmp, 'out'), VERIF_TIER='quick')
            cp = subprocess.run([sys.executable, os.path.abspath(__file__), prop, '--tier', 'quick'], env=env,
                                stdout=subprocess.PIPE, stderr=subprocess.PIPE, universal_newlines=True)
            viol = [l for l in cp.stdout.split('\n') if l.startswith('VIOLATION')]
            failed = re.findall(r'failed obligation: (.*)', cp.stderr)
            out.append({'seeded': d, 'exit': cp.returncode, 'result': 'caught' if cp.returncode == 1 and viol else ('undecided' if cp.returncode == 2 else 'MISSED'),
                        'failed_obligations': failed[:6]})
        finally:
            shutil.rmtree(tmp, ignore_errors=True)
    return out


if __name__ == '__main__':
    sys.exit(main(sys.argv))

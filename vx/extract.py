"""Mechanical extraction of items from /repo into a single Verus file.

A *contract file* (contracts/<unit>.vrs) is a Verus source template.  Lines
starting with `//@` are directives; everything else is copied as is (hand
written specification text: spec fns, lemmas, shim types).  Directives pull the
*current* text of items out of the repository working tree, apply the fixed
rewrite rules below (each application is logged) and splice contract clauses
between signature and body, loop invariants at the n-th loop, and proof hints
at statement anchors.

Nothing here is specific to one unit; unit specific knowledge lives only in the
contract files.
"""
import os
import re
import json

from rustlex import (code_mask, match_brace, find_item, line_of, norm_ws,
                     AnchorLost, items_in)


class Unsupported(Exception):
    """The repo text left the subset the rewrite rules handle (=> exit 2)."""


# --------------------------------------------------------------------------
# rewrite rules (line preserving: no rule adds or removes a newline)
# --------------------------------------------------------------------------

def _blank(s):
    return ''.join('\n' if c == '\n' else ' ' for c in s)


def rule_R1_logs(text, log):
    """delete log::{trace,debug,info,warn,error}!(..); statements"""
    out = text
    while True:
        mask = code_mask(out)
        found = False
        for mm in re.finditer(r'\blog::(trace|debug|info|warn|error)\s*!\s*\(', out):
            if not mask[mm.start()]:
                continue
            op = mm.end() - 1
            cl = match_brace(out, mask, op)
            end = cl + 1
            k = end
            while k < len(out) and out[k] in ' \t':
                k += 1
            if k < len(out) and out[k] == ';':
                end = k + 1
            log.append(('R1', norm_ws(out[mm.start():end])[:80], '<deleted>'))
            out = out[:mm.start()] + _blank(out[mm.start():end]) + out[end:]
            found = True
            break
        if not found:
            return out


def rule_R2_vis(text, log):
    """visibility qualifiers are dropped (everything lives in one module)"""
    mask = code_mask(text)

    def rep(mm):
        if not mask[mm.start()]:
            return mm.group(0)
        log.append(('R2', norm_ws(mm.group(0)), ''))
        return ''
    return re.sub(r'\bpub\b(?:\s*\(\s*(?:super|crate|self|in\s+[\w:]+)\s*\))?[ \t]*', rep, text)


_KEEP_DERIVES = ('Copy', 'Clone', 'PartialEq', 'Eq')


def _is_c_like_enum(text, pos):
    """is the item that follows offset pos an enum without payload-carrying variants?"""
    mm = re.compile(r'(?:\s|#\s*\[[^\]]*\]|///[^\n]*\n|pub(?:\s*\([^)]*\))?)*\s*enum\s+\w+\s*\{').match(text, pos)
    if not mm:
        return False
    mask = code_mask(text)
    ob = mm.end() - 1
    cb = match_brace(text, mask, ob)
    body = ''.join(c for k, c in enumerate(text[ob + 1:cb]) if mask[ob + 1 + k])
    body = re.sub(r'#\s*\[[^\]]*\]', '', body)
    return '(' not in body and '{' not in body


def rule_attrs(text, log):
    """drop outer attributes (#[inline], #[allow], #[must_use], #[doc], #[cfg(..)]
    is *not* dropped but reported as unsupported); derives are filtered to
    Copy/Clone/PartialEq/Eq"""
    out = text
    pos = 0
    while True:
        mask = code_mask(out)
        mm = None
        for cand in re.finditer(r'#\s*\[', out):
            if cand.start() >= pos and mask[cand.start()]:
                mm = cand
                break
        if mm is None:
            return out
        op = mm.end() - 1
        cl = match_brace(out, mask, op)
        inner = out[op + 1:cl]
        name = re.match(r'\s*([\w:]+)', inner).group(1)
        if name == 'derive':
            dm = re.match(r'\s*derive\s*\((.*)\)\s*$', inner, re.S)
            keep = _KEEP_DERIVES if _is_c_like_enum(out, cl + 1) else (('Copy', 'Clone') if re.search(r'\bCopy\b', dm.group(1)) else ())
            kept = [d.strip() for d in dm.group(1).split(',') if d.strip().split('::')[-1] in keep]
            new = ('#[derive(%s)]' % ', '.join(kept)) if kept else ''
            if '\n' in out[mm.start():cl + 1]:
                new = new + '\n' * out[mm.start():cl + 1].count('\n')
            if norm_ws(new) != norm_ws(out[mm.start():cl + 1]):
                log.append(('ATTR', norm_ws(out[mm.start():cl + 1])[:80], norm_ws(new)))
            out = out[:mm.start()] + new + out[cl + 1:]
            pos = mm.start() + len(new)
        elif name in ('cfg', 'cfg_attr'):
            raise Unsupported('cfg attribute inside extracted item: ' + norm_ws(inner)[:60])
        elif name.startswith('verifier'):
            pos = cl + 1
        else:
            log.append(('ATTR', norm_ws(out[mm.start():cl + 1])[:80], '<dropped>'))
            out = out[:mm.start()] + _blank(out[mm.start():cl + 1]) + out[cl + 1:]
            pos = mm.start()


def _angle_close(s, i):
    """s[i] == '<'; return index of matching '>' (no '->' / comparison inside
    type position, so plain counting is right)."""
    depth = 0
    j = i
    while j < len(s):
        if s[j] == '<':
            depth += 1
        elif s[j] == '>' and s[j - 1] != '-':
            depth -= 1
            if depth == 0:
                return j
        j += 1
    raise Unsupported('unbalanced <> in type')


def rule_R3_cells_struct(text, fields, log):
    """in a struct definition: field: Cell<T> / RefCell<T> -> field: T"""
    out = text
    for f in fields:
        mm = re.search(r'\b%s\s*:\s*(Cell|RefCell)\s*<' % re.escape(f), out)
        if not mm:
            continue
        lt = mm.end() - 1
        gt = _angle_close(out, lt)
        inner = out[lt + 1:gt]
        log.append(('R3', norm_ws(out[mm.start():gt + 1])[:80], '%s: %s' % (f, norm_ws(inner))[:80]))
        out = out[:mm.start()] + '%s: %s' % (f, inner) + out[gt + 1:]
    return out


def rule_R3_cells_body(text, fields, log):
    """.f.get() -> .f (a temporary copy `{ let c = ..f; c }` when a method is called on the result) ; .f.set(e) -> .f = e ; .f.borrow_mut() -> (&mut ..f) ;
    .f.borrow() -> (&..f) for the declared interior-mutability fields.  The
    receiver expression is the maximal dotted path that ends in .f"""
    out = text
    renames = []
    for f in fields:
        # guard elision: `let mut g = PATH.f.borrow_mut();` -> g is an alias of the place PATH.f until the end of the
        # enclosing block: drop the binding and write PATH.f for g (a RefCell guard does not restrict other uses of
        # PATH; a `&mut` binding would).  `drop(g);` disappears with it.
        pat = re.compile(r'let\s+(?:mut\s+)?([A-Za-z_]\w*)\s*=\s*((?:[A-Za-z_]\w*)(?:\.(?:[A-Za-z_]\w*|\d+))*)\.%s\.borrow_mut\(\)\s*;' % re.escape(f))
        while True:
            mask = code_mask(out)
            mm = next((m for m in pat.finditer(out) if mask[m.start()]), None)
            if not mm:
                break
            g, place = mm.group(1), '%s.%s' % (mm.group(2), f)
            # end of the enclosing block
            depth = 0
            j = mm.end()
            while j < len(out):
                if mask[j]:
                    if out[j] == '{':
                        depth += 1
                    elif out[j] == '}':
                        if depth == 0:
                            break
                        depth -= 1
                j += 1
            seg = out[mm.end():j]
            smask = mask[mm.end():j]
            pieces = []
            last = 0
            for m2 in re.finditer(r'(?<![\w.])%s\b' % re.escape(g), seg):
                if not smask[m2.start()]:
                    continue
                pieces.append(seg[last:m2.start()])
                pieces.append(place)
                last = m2.end()
            pieces.append(seg[last:])
            seg2 = ''.join(pieces)
            seg2 = re.sub(r'\bdrop\(\s*%s\s*\)\s*;' % re.escape(place), '', seg2)
            log.append(('R3', norm_ws(mm.group(0)), '<binding elided: %s stands for %s>' % (g, place), (g, place)))
            out = out[:mm.start()] + _blank(mm.group(0)) + seg2 + out[j:]
            renames.append((g, place))
    for f in fields:
        # get
        pat = re.compile(r'((?:\b[A-Za-z_][\w]*|\b\d+)(?:\.(?:[A-Za-z_]\w*|\d+))*)\.%s\.get\(\)' % re.escape(f))
        while True:
            mask = code_mask(out)
            mm = next((m for m in pat.finditer(out) if mask[m.start()]), None)
            if not mm:
                break
            new = '%s.%s' % (mm.group(1), f)
            if re.match(r'\s*\.\s*(?:insert|remove|toggle|set|push|push_back|push_front|pop|pop_front|pop_back|clear|take|replace|extend|truncate|retain|swap|sort|dedup|drain|append|get_or_insert|get_or_insert_with|as_mut|iter_mut|get_mut|entry)\s*\(', out[mm.end():]):
                # `cell.get().mutator(..)` (insert, remove, set, push, take, ...): the method works on the COPY that `Cell::get` returns, never on the cell's content
                # (`self.flags.get().insert(F)` changes nothing that is stored): a temporary stands for the copy
                new = '{ let vx_cp = %s.%s; vx_cp }' % (mm.group(1), f)
            log.append(('R3', mm.group(0), new))
            out = out[:mm.start()] + new + out[mm.end():]
        # borrow / borrow_mut
        pat = re.compile(r'((?:\b[A-Za-z_][\w]*|\b\d+)(?:\.(?:[A-Za-z_]\w*|\d+))*)\.%s\.(borrow_mut|borrow)\(\)' % re.escape(f))
        while True:
            mask = code_mask(out)
            mm = next((m for m in pat.finditer(out) if mask[m.start()]), None)
            if not mm:
                break
            amp = '&mut ' if mm.group(2) == 'borrow_mut' else '&'
            new = '(%s%s.%s)' % (amp, mm.group(1), f)
            log.append(('R3', mm.group(0), new))
            out = out[:mm.start()] + new + out[mm.end():]
        # set
        pat = re.compile(r'((?:\b[A-Za-z_][\w]*|\b\d+)(?:\.(?:[A-Za-z_]\w*|\d+))*)\.%s\.set\(' % re.escape(f))
        while True:
            mask = code_mask(out)
            mm = next((m for m in pat.finditer(out) if mask[m.start()]), None)
            if not mm:
                break
            op = mm.end() - 1
            cl = match_brace(out, mask, op)
            arg = out[op + 1:cl]
            new = '%s.%s = (%s)' % (mm.group(1), f, arg)
            log.append(('R3', norm_ws(out[mm.start():cl + 1])[:80], norm_ws(new)[:80]))
            out = out[:mm.start()] + new + out[cl + 1:]
    return out


def _if_header_end(out, mask, j):
    """offset of the `{` that opens the block of the `if` whose condition starts at j"""
    depth = 0
    while j < len(out):
        if mask[j]:
            c = out[j]
            if c in '([':
                depth += 1
            elif c in ')]':
                depth -= 1
            elif c == '{' and depth == 0:
                return j
        j += 1
    raise Unsupported('R4: if without block')


def _if_chain_end(out, mask, ifpos):
    """end offset (exclusive) of `if .. {..} [else if .. {..}]* [else {..}]` starting at ifpos"""
    ob = _if_header_end(out, mask, ifpos + 2)
    cb = match_brace(out, mask, ob)
    k = cb + 1
    while k < len(out) and (out[k].isspace() or not mask[k]):
        k += 1
    if out[k:k + 4] == 'else' and not (out[k + 4].isalnum() or out[k + 4] == '_'):
        e0 = k + 4
        while out[e0].isspace():
            e0 += 1
        if out[e0] == '{':
            return match_brace(out, mask, e0) + 1
        if out[e0:e0 + 2] == 'if':
            return _if_chain_end(out, mask, e0)
        raise Unsupported('R4: else followed by neither block nor if')
    return cb + 1


def rule_R4_letchains(text, log):
    """let chains: `if C1 && C2 .. { A } [else B]` where some Ci is `let P = E`
       ->  `if C1 { if C2 .. { A } [else B'] } [else B']`   (B' = B, wrapped in braces when B is an else-if chain)
    applied until no `if` header mixes `&&` with a `let`"""
    out = text
    # `while C1 && let P = E .. { B }`  ->  `loop { if C1 && let P = E .. { B } else { break; } }`
    while True:
        mask = code_mask(out)
        hitw = None
        for mm in re.finditer(r'\bwhile\b', out):
            if not mask[mm.start()]:
                continue
            try:
                ob = _if_header_end(out, mask, mm.end())
            except Unsupported:
                continue
            hdr = ''.join(c if mask[mm.end() + k] else ' ' for k, c in enumerate(out[mm.end():ob]))
            if '&&' in hdr and re.search(r'(^|&&)\s*let\s', hdr.strip()):
                hitw = (mm, ob)
                break
        if hitw is None:
            break
        mm, ob = hitw
        cb = match_brace(out, mask, ob)
        new = 'loop { if' + out[mm.end():cb + 1] + ' else { break; } }'
        log.append(('R4', norm_ws(out[mm.start():ob])[:100], 'loop { if .. { .. } else { break; } }'))
        out = out[:mm.start()] + new + out[cb + 1:]
    guard = 0
    while True:
        guard += 1
        if guard > 200:
            raise Unsupported('R4 did not terminate')
        mask = code_mask(out)
        hit = None
        for mm in re.finditer(r'\bif\b', out):
            if not mask[mm.start()]:
                continue
            depth = 0
            j = mm.end()
            amp = None
            has_let = False
            while j < len(out):
                if mask[j]:
                    c = out[j]
                    if c in '([':
                        depth += 1
                    elif c in ')]':
                        depth -= 1
                    elif c == '{' and depth == 0:
                        break
                    elif c == ';' and depth == 0:
                        break
                    elif c == '&' and depth == 0 and out[j:j + 2] == '&&' and amp is None and out[j - 1] != '&':
                        amp = j
                    elif depth == 0 and out[j:j + 4] == 'let ' and not (out[j - 1].isalnum() or out[j - 1] == '_'):
                        has_let = True
                j += 1
            if j >= len(out) or out[j] != '{':
                continue
            if amp is not None and has_let:
                hit = (mm, amp, j)
                break
        if hit is None:
            return out
        mm, amp, ob = hit
        cb = match_brace(out, mask, ob)
        first = out[mm.start():amp].rstrip()
        rest = out[amp + 2:ob]
        body = out[ob:cb + 1]
        # else branch?
        k = cb + 1
        while k < len(out) and (out[k].isspace() or not mask[k]):
            k += 1
        els = ''
        end = cb + 1
        if out[k:k + 4] == 'else' and not (out[k + 4].isalnum() or out[k + 4] == '_'):
            e0 = k + 4
            while out[e0].isspace():
                e0 += 1
            if out[e0] == '{':
                e1 = match_brace(out, mask, e0)
                els = ' else ' + out[e0:e1 + 1]
                end = e1 + 1
            elif out[e0:e0 + 2] == 'if':
                e1 = _if_chain_end(out, mask, e0)
                els = ' else { ' + out[e0:e1] + ' }'
                end = e1
            else:
                raise Unsupported('R4: else followed by neither block nor if')
        pad = out[len(first) + mm.start():amp]
        # line preservation: `els` is emitted twice; the second copy is whitespace-normalised to one line
        new = first + pad.replace('&&', '') + ' { if' + rest + body + (els if els else '') + ' }' + (norm_ws(els) if els else '')
        log.append(('R4', norm_ws(out[mm.start():ob])[:100], norm_ws(first + ' { if' + rest)[:100]))
        out = out[:mm.start()] + new + out[end:]


def rule_R18_slice_iter_cursor(text, log):
    """`let mut X = E.iter();` whose only later uses are `X.next()` / `X.last()`
       ->  `let vx_X_seq = &E; let mut vx_X_pos: usize = 0;` and `vx_iter_next(vx_X_seq, &mut vx_X_pos)` / `vx_iter_last(..)`
    (a slice iterator is a cursor into the slice; vx_iter_next / vx_iter_last are prelude functions with verified bodies)"""
    out = text
    rx = re.compile(r'let\s+mut\s+([A-Za-z_]\w*)\s*=\s*([A-Za-z_][\w.]*)\.iter\(\)\s*;')
    while True:
        mask = code_mask(out)
        mm = next((m for m in rx.finditer(out) if mask[m.start()]), None)
        if not mm:
            return out
        x, e = mm.group(1), mm.group(2)
        rest = out[mm.end():]
        rmask = mask[mm.end():]
        uses = [m for m in re.finditer(r'(?<![\w.])%s\b' % re.escape(x), rest) if rmask[m.start()]]
        pieces = []
        last = 0
        for u in uses:
            tail = rest[u.end():]
            m2 = re.match(r'\s*\.\s*(next|last)\s*\(\s*\)', tail)
            if not m2:
                raise Unsupported('R18: iterator `%s` is used other than by next()/last()' % x)
            pieces.append(rest[last:u.start()])
            pieces.append('vx_iter_%s(vx_%s_seq, &mut vx_%s_pos)' % (m2.group(1), x, x))
            last = u.end() + m2.end()
        pieces.append(rest[last:])
        new_let = 'let vx_%s_seq = &%s; let mut vx_%s_pos: usize = 0;' % (x, e, x)
        log.append(('R18', norm_ws(mm.group(0)), new_let))
        out = out[:mm.start()] + new_let + ''.join(pieces)


def rule_R19_enumerate(text, log):
    """`for (I, V) in S.enumerate() { B }` over a sequence parameter S (no `continue` in B)
       ->  `{ let mut I: usize = 0; while I < S.len() { let V = &S[I]; B I += 1; } }`"""
    out = text
    rx = re.compile(r'for\s*\(\s*([A-Za-z_]\w*)\s*,\s*([A-Za-z_]\w*)\s*\)\s*in\s+([A-Za-z_]\w*)\.enumerate\(\)\s*\{')
    while True:
        mask = code_mask(out)
        mm = next((m for m in rx.finditer(out) if mask[m.start()]), None)
        if not mm:
            return out
        ob = mm.end() - 1
        cb = match_brace(out, mask, ob)
        body = out[ob + 1:cb]
        bmask = mask[ob + 1:cb]
        if any(bmask[m.start()] for m in re.finditer(r'\bcontinue\b', body)):
            raise Unsupported('R19: continue inside an enumerate() loop')
        i_, v_, s_ = mm.group(1), mm.group(2), mm.group(3)
        new = '{ let mut %s: usize = 0; while %s < %s.len() { let %s = &%s[%s];%s %s += 1; } }' % (i_, i_, s_, v_, s_, i_, body, i_)
        log.append(('R19', norm_ws(mm.group(0)), 'let mut %s = 0; while %s < %s.len() { let %s = &%s[%s]; .. }' % (i_, i_, s_, v_, s_, i_)))
        out = out[:mm.start()] + new + out[cb + 1:]


def _recv_start(out, mask, dot):
    """start offset of the maximal receiver expression that ends just before offset `dot` (a `.`):
    identifiers, field accesses, `::` paths, call/index groups and whitespace between them"""
    j = dot
    while True:
        k = j - 1
        while k >= 0 and out[k].isspace():
            k -= 1
        if k < 0:
            return j
        c = out[k]
        if c in ')]':
            depth = 0
            while k >= 0:
                if mask[k]:
                    if out[k] in ')]':
                        depth += 1
                    elif out[k] in '([':
                        depth -= 1
                        if depth == 0:
                            break
                k -= 1
            j = k
            continue
        if c.isalnum() or c == '_':
            while k >= 0 and (out[k].isalnum() or out[k] == '_'):
                k -= 1
            word = out[k + 1:j].strip()
            if word in _RUST_KW_EXPR:
                return j
            j = k + 1
            # a preceding `.` or `::` continues the receiver
            q = j - 1
            while q >= 0 and out[q].isspace():
                q -= 1
            if q >= 0 and out[q] == '.' and (q == 0 or out[q - 1] != '.'):
                j = q
                continue
            if q >= 1 and out[q - 1:q + 1] == '::':
                j = q - 1
                continue
            return j
        return j


_RUST_KW_EXPR = set('as break else if in let match mut ref return while for loop move'.split())


def _split_top_commas(s):
    parts = []
    depth = 0
    last = 0
    bars = 0
    for i, c in enumerate(s):
        if c in '([{':
            depth += 1
        elif c in ')]}':
            depth -= 1
        elif c == ',' and depth == 0 and bars % 2 == 0:
            parts.append(s[last:i])
            last = i + 1
        elif c == '|' and depth == 0 and s[i:i + 2] != '||' and (i == 0 or s[i - 1] != '|'):
            bars += 1
    parts.append(s[last:])
    return parts


def rule_R22_fold(text, log):
    """`RECV.iter().fold(INIT, |ACC, PAT| BODY)`  ->  `{ let mut ACC = INIT; for PAT in RECV.iter() { ACC = BODY; } ACC }`
    (definition of Iterator::fold for a closure that returns the new accumulator)"""
    out = text
    rx = re.compile(r'\.\s*iter\(\)\s*\.\s*fold\s*\(')
    while True:
        mask = code_mask(out)
        mm = next((m for m in rx.finditer(out) if mask[m.start()]), None)
        if not mm:
            return out
        op = mm.end() - 1
        cl = match_brace(out, mask, op)
        args = out[op + 1:cl]
        c0 = None
        depth = 0
        for i, c in enumerate(args):
            if c in '([{':
                depth += 1
            elif c in ')]}':
                depth -= 1
            elif c == ',' and depth == 0:
                c0 = i
                break
        if c0 is None:
            raise Unsupported('R22: fold without two arguments')
        init = args[:c0].strip()
        clo = args[c0 + 1:].strip()
        m2 = re.match(r'\|\s*([A-Za-z_]\w*)\s*,\s*', clo)
        if not m2:
            raise Unsupported('R22: fold closure shape')
        acc = m2.group(1)
        j = m2.end()
        depth = 0
        while j < len(clo):
            c = clo[j]
            if c in '([':
                depth += 1
            elif c in ')]':
                depth -= 1
            elif c == '|' and depth == 0:
                break
            j += 1
        pat = clo[m2.end():j].strip()
        body = clo[j + 1:].strip()
        rs = _recv_start(out, mask, mm.start())
        recv = out[rs:mm.start()]
        recv_n = re.sub(r'\s*\.\s*', '.', norm_ws(recv))
        new = '{ let mut %s = %s; for %s in %s.iter() { %s = %s; } %s }' % (acc, init, pat, recv_n, acc, body, acc)
        pad = '\n' * (out[rs:cl + 1].count('\n') - new.count('\n'))
        log.append(('R22', norm_ws(out[rs:cl + 1])[:120], norm_ws(new)[:160]))
        out = out[:rs] + new + pad + out[cl + 1:]


def rule_R23_map_or(text, log):
    """`OPT.map_or(D, |P| B)` -> `(match OPT { Some(P) => B, None => D })`;  `OPT.map_or(D, path::f)` -> `(match OPT { Some(vx_m) => path::f(vx_m), None => D })`
    (definition of Option::map_or; D is a literal or a plain path, so evaluating it lazily changes nothing)"""
    out = text
    rx = re.compile(r'\.\s*map_or\s*\(')
    pos = 0
    while True:
        mask = code_mask(out)
        mm = next((m for m in rx.finditer(out) if m.start() >= pos and mask[m.start()]), None)
        if not mm:
            return out
        op = mm.end() - 1
        cl = match_brace(out, mask, op)
        args = out[op + 1:cl]
        c0 = None
        depth = 0
        for i, c in enumerate(args):
            if c in '([{':
                depth += 1
            elif c in ')]}':
                depth -= 1
            elif c == ',' and depth == 0:
                c0 = i
                break
        if c0 is None:
            raise Unsupported('R23: map_or without two arguments')
        dflt = args[:c0].strip()
        if not re.match(r'^(?:\d[\w]*|true|false|[A-Za-z_][\w:.]*)$', dflt):
            raise Unsupported('R23: map_or default is not a literal or a path: ' + dflt[:40])
        f = args[c0 + 1:].strip().rstrip(',').strip()
        m2 = re.match(r'\|\s*([^|]+?)\s*\|\s*', f)
        rs = _recv_start(out, mask, mm.start())
        recv = out[rs:mm.start()]
        if m2:
            new = '(match %s { Some(%s) => %s, None => %s })' % (recv, m2.group(1), f[m2.end():], dflt)
        elif re.match(r'^[A-Za-z_][\w:]*$', f):
            new = '(match %s { Some(vx_m) => %s(vx_m), None => %s })' % (recv, f, dflt)
        else:
            raise Unsupported('R23: map_or function shape')
        pad = '\n' * (out[rs:cl + 1].count('\n') - new.count('\n'))
        log.append(('R23', norm_ws(out[rs:cl + 1])[:120], norm_ws(new)[:160]))
        out = out[:rs] + new + max(0, len(pad)) * '\n' + out[cl + 1:]
        pos = rs + 1



def rule_R25_filter_count(text, log):
    """`RECV.iter().filter(|PAT| COND).count()`  ->  `{ let mut vx_n: usize = 0; for PAT in RECV.iter() { if COND { vx_n += 1; } } vx_n }`
    (definition of filter + count; the closure pattern binds through the reference exactly as the for pattern does)"""
    out = text
    rx = re.compile(r'\.\s*iter\(\)\s*\.\s*filter\s*\(')
    while True:
        mask = code_mask(out)
        mm = next((m for m in rx.finditer(out) if mask[m.start()]), None)
        if not mm:
            return out
        op = mm.end() - 1
        cl = match_brace(out, mask, op)
        tail = re.match(r'\s*\.\s*count\s*\(\s*\)', out[cl + 1:])
        if not tail:
            raise Unsupported('R25: filter(..) not followed by count()')
        clo = out[op + 1:cl].strip()
        if not clo.startswith('|'):
            raise Unsupported('R25: filter argument is not a closure')
        j = 1
        depth = 0
        while j < len(clo):
            c = clo[j]
            if c in '([':
                depth += 1
            elif c in ')]':
                depth -= 1
            elif c == '|' and depth == 0:
                break
            j += 1
        pat = clo[1:j].strip()
        pat = re.sub(r'^&\s*', '', pat)
        cond = clo[j + 1:].strip()
        rs = _recv_start(out, mask, mm.start())
        recv_n = re.sub(r'\s*\.\s*', '.', norm_ws(out[rs:mm.start()]))
        end = cl + 1 + tail.end()
        new = '{ let mut vx_n: usize = 0; for %s in %s.iter() { if %s { vx_n += 1; } } vx_n }' % (pat, recv_n, cond)
        pad = '\n' * max(0, out[rs:end].count('\n') - new.count('\n'))
        log.append(('R25', norm_ws(out[rs:end])[:120], norm_ws(new)[:160]))
        out = out[:rs] + new + pad + out[end:]


def rule_R26_option_tests(text, log):
    """`OPT.is_none_or(|P| B)` -> `(match OPT { None => true, Some(P) => B })`; `OPT.is_some_and(|P| B)` -> `(match OPT { None => false, Some(P) => B })`"""
    out = text
    rx = re.compile(r'\.\s*(is_none_or|is_some_and)\s*\(\s*\|')
    while True:
        mask = code_mask(out)
        mm = next((m for m in rx.finditer(out) if mask[m.start()]), None)
        if not mm:
            return out
        op = out.index('(', mm.start())
        cl = match_brace(out, mask, op)
        clo = out[op + 1:cl].strip()
        j = clo.index('|', 1)
        pat = clo[1:j].strip()
        body = clo[j + 1:].strip()
        rs = _recv_start(out, mask, mm.start())
        recv = out[rs:mm.start()]
        new = '(match %s { None => %s, Some(%s) => %s })' % (recv, 'true' if mm.group(1) == 'is_none_or' else 'false', pat, body)
        pad = '\n' * max(0, out[rs:cl + 1].count('\n') - new.count('\n'))
        log.append(('R26', norm_ws(out[rs:cl + 1])[:120], norm_ws(new)[:160]))
        out = out[:rs] + new + pad + out[cl + 1:]



def rule_R27_map_collect(text, log):
    """`let X: Vec<T> = RECV.iter().map(|P| BODY).collect();`  ->  `let mut X: Vec<T> = Vec::new(); for P in RECV.iter() { X.push(BODY); }`
    (definition of map + collect into a Vec)"""
    out = text
    rx = re.compile(r'let\s+([A-Za-z_]\w*)\s*:\s*(Vec\s*<[^=;]*>)\s*=\s*')
    pos = 0
    while True:
        mask = code_mask(out)
        mm = next((m for m in rx.finditer(out) if m.start() >= pos and mask[m.start()]), None)
        if not mm:
            return out
        # statement end
        j = mm.end()
        depth = 0
        while j < len(out):
            if mask[j]:
                c = out[j]
                if c in '([{':
                    depth += 1
                elif c in ')]}':
                    depth -= 1
                elif c == ';' and depth == 0:
                    break
            j += 1
        stmt = out[mm.end():j]
        m2 = re.match(r'^(.*?)\s*\.\s*iter\(\)\s*\.\s*map\s*\(\s*\|\s*([^|]+?)\s*\|(.*)\)\s*\.\s*collect\s*\(\s*\)\s*$', stmt, re.S)
        if not m2:
            pos = mm.end()
            continue
        recv = re.sub(r'\s*\.\s*', '.', norm_ws(m2.group(1)))
        x, ty = mm.group(1), norm_ws(mm.group(2))
        new = 'let mut %s: %s = Vec::new(); for %s in %s.iter() { %s.push(%s); }' % (x, ty, m2.group(2), recv, x, m2.group(3).strip())
        pad = '\n' * max(0, out[mm.start():j + 1].count('\n') - new.count('\n'))
        log.append(('R27', norm_ws(out[mm.start():j + 1])[:140], norm_ws(new)[:160]))
        out = out[:mm.start()] + new + pad + out[j + 1:]
        pos = mm.start() + len(new)


def rule_R28_bitflags_or_assign(text, log):
    """`X |= Flags::E;` -> `X.insert(Flags::E);`, `X -= Flags::E;` -> `X.remove(Flags::E);` for the bitflags types of the repository (bitflags 2.x: BitOrAssign is insert, SubAssign is remove)"""
    out = text
    rx = re.compile(r'(?<![\w.])([A-Za-z_]\w*)\s*(\||-)=\s*((?:[A-Za-z_]\w*Flags)::[^;]+);')
    while True:
        mask = code_mask(out)
        mm = next((m for m in rx.finditer(out) if mask[m.start()]), None)
        if not mm:
            return out
        # bitflags 2.x: `|=` is insert (union), `-=` is remove (difference, self & !other)
        new = '%s.%s(%s);' % (mm.group(1), 'insert' if mm.group(2) == '|' else 'remove', mm.group(3).strip())
        log.append(('R28', norm_ws(mm.group(0)), new))
        out = out[:mm.start()] + new + out[mm.end():]



def rule_R29_iter_copied(text, log):
    """`for X in E.iter().copied() { B }` -> `for vx_r_X in E { let X = *vx_r_X; B }` (E a slice reference: the same elements, by value)"""
    out = text
    rx = re.compile(r'\bfor\s+([A-Za-z_]\w*)\s+in\s+([^{]+?)\s*\.\s*iter\(\)\s*\.\s*copied\(\)\s*\{')
    while True:
        mask = code_mask(out)
        mm = next((m for m in rx.finditer(out) if mask[m.start()]), None)
        if not mm:
            return out
        x, e = mm.group(1), mm.group(2).strip()
        new = 'for vx_r_%s in %s { let %s = *vx_r_%s;' % (x, e, x, x)
        log.append(('R29', norm_ws(mm.group(0)), new))
        out = out[:mm.start()] + new + out[mm.end():]



_R30_OPTION_SOURCES = re.compile(r'\.\s*(position|rposition|find|get|get_mut|pop_front|pop_back|pop|first|last|take|checked_\w+)\s*\(|\bvx_it_r?position\b')


def _r30_is_option(out, mask, rs, recv):
    """the receiver of `and_then` is an Option when it is (or is a local bound to) the result of a std operation that
    returns one (`position`, `find`, `get`, `pop_front`, ...); everything else is read as a Result"""
    r = recv.strip()
    if _R30_OPTION_SOURCES.search(r):
        return True
    if re.match(r'^[A-Za-z_]\w*$', r):
        last = None
        for m in re.finditer(r'\blet\s+(?:mut\s+)?%s\s*(?::[^=;]+)?=' % re.escape(r), out[:rs]):
            if mask[m.start()]:
                last = m
        if last:
            k = last.end()
            depth = 0
            while k < rs:
                c = out[k]
                if mask[k]:
                    if c in '([{':
                        depth += 1
                    elif c in ')]}':
                        depth -= 1
                    elif c == ';' and depth <= 0:
                        break
                k += 1
            return bool(_R30_OPTION_SOURCES.search(out[last.end():k]))
    return False


def rule_R30_and_then(text, log):
    """`RES.and_then(|P| B)` -> `(match RES { Ok(P) => B, Err(vx_e) => Err(vx_e) })` (definition of Result::and_then), or
    `(match OPT { Some(P) => B, None => None })` when the receiver is recognisably an Option (see _r30_is_option); a receiver of the
    other kind makes the rewritten text ill-typed, which is reported as "outside the subset")"""
    out = text
    rx = re.compile(r'\.\s*and_then\s*\(\s*\|')
    while True:
        mask = code_mask(out)
        mm = next((m for m in rx.finditer(out) if mask[m.start()]), None)
        if not mm:
            return out
        op = out.index('(', mm.start())
        cl = match_brace(out, mask, op)
        clo = out[op + 1:cl].strip()
        j = clo.index('|', 1)
        pat = clo[1:j].strip()
        body = clo[j + 1:].strip()
        # a typed closure parameter (`|x: T|`, or `|_vx_u: ()|` from the unit-pattern rewrite) is a plain binding in a match arm
        mt = re.match(r'^(_?[A-Za-z]\w*)\s*:\s*.+$', pat)
        if mt:
            pat = mt.group(1)
        rs = _recv_start(out, mask, mm.start())
        recv = out[rs:mm.start()]
        if _r30_is_option(out, mask, rs, recv):
            new = '(match %s { Some(%s) => %s, None => None })' % (recv, pat, body)
        else:
            new = '(match %s { Ok(%s) => %s, Err(vx_e) => Err(vx_e) })' % (recv, pat, body)
        pad = '\n' * max(0, out[rs:cl + 1].count('\n') - new.count('\n'))
        log.append(('R30', norm_ws(out[rs:cl + 1])[:120], norm_ws(new)[:160]))
        out = out[:rs] + new + pad + out[cl + 1:]



def _closure_parts(arg):
    """`|PAT| BODY` -> (PAT, BODY); a path `a::b` -> (None, path)"""
    a = arg.strip().rstrip(',').strip()
    if a.startswith('|'):
        j = 1
        depth = 0
        while j < len(a):
            c = a[j]
            if c in '([':
                depth += 1
            elif c in ')]':
                depth -= 1
            elif c == '|' and depth == 0:
                break
            j += 1
        return a[1:j].strip(), a[j + 1:].strip()
    if re.match(r'^[A-Za-z_][\w:]*$', a):
        return None, a
    raise Unsupported('R31: predicate argument is neither a closure nor a path')


def rule_R31_iter_predicates(text, log, deque=False):
    """`S.iter().position(P)` / `.rposition(P)` / `.any(P)` / `.all(P)` / `S.iter().enumerate().position(P)`
       -> `vx_it_position(&S, |vx_e| -> (vx_r: bool) ensures vx_r == ({ let PAT = vx_e; BODY }) { let PAT = vx_e; BODY })` etc.
    The prelude functions are loops verified against the predicate's own contract; the predicate's body is the repository's,
    its `ensures` restates that body (a body that is not a specification expression leaves the subset)."""
    out = text
    rx = re.compile(r'\.\s*iter\(\)\s*(\.\s*enumerate\(\)\s*)?\.\s*(position|rposition|any|all)\s*\(')
    pos = 0
    while True:
        mask = code_mask(out)
        mm = next((m for m in rx.finditer(out) if m.start() >= pos and mask[m.start()]), None)
        if not mm:
            return out
        op = mm.end() - 1
        cl = match_brace(out, mask, op)
        try:
            pat, body = _closure_parts(out[op + 1:cl])
        except Unsupported:
            pos = mm.end()
            continue
        enum = mm.group(1) is not None
        kind = mm.group(2)
        if enum and kind != 'position':
            pos = mm.end()
            continue
        rs = _recv_start(out, mask, mm.start())
        recv = re.sub(r'\s*\.\s*', '.', norm_ws(out[rs:mm.start()]))
        if pat is None:
            expr = '%s(vx_e)' % body
        else:
            expr = '{ let %s = vx_e; %s }' % (pat, body)
        req = ''
        if enum:
            req = ' requires vx_e.0 < (&%s).len()' % recv
        fn = 'vx_it_enum_position' if enum else ('vx_dq_' if deque else 'vx_it_') + kind
        # the `ensures` restates the body as a specification expression: std map/set look-ups are read through the view
        def _spec_lookup(m):
            a = m.group(3).strip()
            a = a[1:].strip() if a.startswith('&') else '*' + a
            return '%s@.%s(%s)' % (m.group(1), 'contains_key' if m.group(2) == 'contains_key' else 'contains', a)
        sexpr = re.sub(r'((?:self\.)?[A-Za-z_][\w.]*)\.(contains_key|contains)\(\s*(&?\s*[A-Za-z_]\w*)\s*\)', _spec_lookup, expr)
        new = '%s(&%s, |vx_e| -> (vx_r: bool)%s ensures vx_r == (%s) %s)' % (fn, recv, req, sexpr, expr if expr.startswith('{') else '{ %s }' % expr)
        pad = '\n' * max(0, out[rs:cl + 1].count('\n') - new.count('\n'))
        log.append(('R31', norm_ws(out[rs:cl + 1])[:120], norm_ws(new)[:200]))
        out = out[:rs] + new + pad + out[cl + 1:]
        pos = rs + len(fn)


def rule_R34_map_err_closure(text, log):
    """`RES.map_err(|P| B)` -> `(match RES { Ok(vx_v) => Ok(vx_v), Err(P) => Err(B) })` (definition of Result::map_err; opt-in: `//@rules +R34`)"""
    out = text
    rx = re.compile(r'\.\s*map_err\s*\(\s*\|')
    pos = 0
    while True:
        mask = code_mask(out)
        mm = next((m for m in rx.finditer(out) if m.start() >= pos and mask[m.start()]), None)
        if not mm:
            return out
        op = out.index('(', mm.start())
        cl = match_brace(out, mask, op)
        try:
            pat, body = _closure_parts(out[op + 1:cl])
        except Unsupported:
            pos = mm.end()
            continue
        if pat is None:
            pos = mm.end()
            continue
        rs = _recv_start(out, mask, mm.start())
        recv = out[rs:mm.start()]
        new = '(match %s { Ok(vx_v) => Ok(vx_v), Err(%s) => Err(%s) })' % (recv.strip(), pat, body)
        pad = '\n' * max(0, out[rs:cl + 1].count('\n') - new.count('\n'))
        log.append(('R34', norm_ws(out[rs:cl + 1])[:120], norm_ws(new)[:160]))
        out = out[:rs] + new + pad + out[cl + 1:]
        pos = rs + 1


def rule_R35_option_filter(text, log):
    """`OPT.filter(|P| B)` -> `(match OPT { Some(vx_f) => if { let P = &vx_f; B } { Some(vx_f) } else { None }, None => None })`
    (definition of Option::filter; receivers that are iterator chains are left alone)"""
    out = text
    rx = re.compile(r'\.\s*filter\s*\(\s*\|')
    pos = 0
    while True:
        mask = code_mask(out)
        mm = next((m for m in rx.finditer(out) if m.start() >= pos and mask[m.start()]), None)
        if not mm:
            return out
        op = out.index('(', mm.start())
        cl = match_brace(out, mask, op)
        rs = _recv_start(out, mask, mm.start())
        recv = out[rs:mm.start()]
        after = out[cl + 1:cl + 40]
        if re.search(r'\.\s*(iter|into_iter|iter_mut|drain|chars|bytes|split\w*|map|enumerate|rev|skip|take|zip|chain|copied|cloned|keys|values)\s*\([^()]*\)\s*$', recv) or re.match(r'\s*\.\s*(count|map|collect|next|any|all|for_each|sum|last|nth|fold)\b', after):
            pos = mm.end()
            continue
        try:
            pat, body = _closure_parts(out[op + 1:cl])
        except Unsupported:
            pos = mm.end()
            continue
        if pat is None:
            pos = mm.end()
            continue
        new = '(match %s { Some(vx_f) => if { let %s = &vx_f; %s } { Some(vx_f) } else { None }, None => None })' % (recv.strip(), pat, body)
        pad = '\n' * max(0, out[rs:cl + 1].count('\n') - new.count('\n'))
        log.append(('R35', norm_ws(out[rs:cl + 1])[:120], norm_ws(new)[:160]))
        out = out[:rs] + new + pad + out[cl + 1:]
        pos = rs + 1


def rule_R36_range_for_each(text, log):
    """`(A..B).for_each(|_| STMT)` -> `for _vx_fe in A..B { STMT; }` (definition of Iterator::for_each on a range whose
    closure ignores the index: STMT runs once per index, in order)"""
    out = text
    rx = re.compile(r'\.\s*for_each\s*\(\s*\|\s*_(?:vx\d+)?\s*\|')
    while True:
        mask = code_mask(out)
        mm = next((m for m in rx.finditer(out) if mask[m.start()]), None)
        if not mm:
            return out
        op = out.index('(', mm.start())
        cl = match_brace(out, mask, op)
        rs = _recv_start(out, mask, mm.start())
        recv = out[rs:mm.start()].strip()
        rmask = code_mask(recv)
        if not (recv.startswith('(') and '..' in recv and match_brace(recv, rmask, 0) == len(recv) - 1):
            raise Unsupported('R36: for_each on a receiver that is not a parenthesised range: %s' % norm_ws(recv)[:60])
        body = out[mm.end():cl].strip()
        new = 'for _vx_fe in %s { %s; }' % (recv[1:-1].strip(), body)
        end = cl + 1
        tail = re.match(r'\s*;', out[end:])
        if tail:
            end += tail.end()
        pad = '\n' * max(0, out[rs:end].count('\n') - new.count('\n'))
        log.append(('R36', norm_ws(out[rs:end])[:120], norm_ws(new)[:160]))
        out = out[:rs] + new + pad + out[end:]


def rule_R38_bool_then(text, log):
    """`B.then(|| E)` -> `(if B { Some(E) } else { None })` (definition of bool::then; only closures without parameters)"""
    out = text
    rx = re.compile(r'\.\s*then\s*\(\s*\|\|')
    while True:
        mask = code_mask(out)
        mm = next((m for m in rx.finditer(out) if mask[m.start()]), None)
        if not mm:
            return out
        op = out.index('(', mm.start())
        cl = match_brace(out, mask, op)
        clo = out[op + 1:cl].strip()
        body = clo[2:].strip()
        rs = _recv_start(out, mask, mm.start())
        recv = out[rs:mm.start()]
        new = '(if %s { Some(%s) } else { None })' % (recv.strip(), body)
        pad = '\n' * max(0, out[rs:cl + 1].count('\n') - new.count('\n'))
        log.append(('R38', norm_ws(out[rs:cl + 1])[:120], norm_ws(new)[:160]))
        out = out[:rs] + new + pad + out[cl + 1:]


def rule_R39_option_transpose(text, log):
    """`OPT.transpose()` -> `(match OPT { Some(Ok(v)) => Ok(Some(v)), Some(Err(e)) => Err(e), None => Ok(None) })`
    (definition of Option<Result<T, E>>::transpose; a Result<Option<T>, E> receiver no longer type-checks: undecided)"""
    out = text
    rx = re.compile(r'\.\s*transpose\s*\(\s*\)')
    while True:
        mask = code_mask(out)
        mm = next((m for m in rx.finditer(out) if mask[m.start()]), None)
        if not mm:
            return out
        rs = _recv_start(out, mask, mm.start())
        recv = out[rs:mm.start()]
        new = '(match %s { Some(Ok(vx_t)) => Ok(Some(vx_t)), Some(Err(vx_e)) => Err(vx_e), None => Ok(None) })' % recv.strip()
        pad = '\n' * max(0, out[rs:mm.end()].count('\n') - new.count('\n'))
        log.append(('R39', norm_ws(out[rs:mm.end()])[:120], norm_ws(new)[:160]))
        out = out[:rs] + new + pad + out[mm.end():]


def rule_R40_debug_assert_eq(text, log):
    """`debug_assert_eq!(A, B, ..)` -> `debug_assert!((A) == (B))`, `debug_assert_ne!` likewise with `!=` (what the macros test; the
    message arguments are dropped). Verus reads `debug_assert!(c)` as "c must hold here" (a panic in debug builds otherwise)."""
    out = text
    rx = re.compile(r'\bdebug_assert_(eq|ne)\s*!\s*\(')
    while True:
        mask = code_mask(out)
        mm = next((m for m in rx.finditer(out) if mask[m.start()]), None)
        if not mm:
            return out
        op = mm.end() - 1
        cl = match_brace(out, mask, op)
        args = _split_params(out[op + 1:cl])
        if len(args) < 2:
            raise Unsupported('R40: debug_assert_%s with %d arguments' % (mm.group(1), len(args)))
        new = 'debug_assert!((%s) %s (%s))' % (args[0].strip(), '==' if mm.group(1) == 'eq' else '!=', args[1].strip())
        pad = '\n' * max(0, out[mm.start():cl + 1].count('\n') - new.count('\n'))
        log.append(('R40', norm_ws(out[mm.start():cl + 1])[:120], norm_ws(new)[:160]))
        out = out[:mm.start()] + new + pad + out[cl + 1:]


def rule_R41_bool_then_some(text, log):
    """`B.then_some(E)` -> `{ let vx_b = B; let vx_ts = E; if vx_b { Some(vx_ts) } else { None } }` (definition of bool::then_some:
    receiver first, then the eagerly evaluated argument)"""
    out = text
    rx = re.compile(r'\.\s*then_some\s*\(')
    while True:
        mask = code_mask(out)
        mm = next((m for m in rx.finditer(out) if mask[m.start()]), None)
        if not mm:
            return out
        op = mm.end() - 1
        cl = match_brace(out, mask, op)
        arg = out[op + 1:cl].strip()
        rs = _recv_start(out, mask, mm.start())
        recv = norm_ws(out[rs:mm.start()])
        new = '{ let vx_b = %s; let vx_ts = %s; if vx_b { Some(vx_ts) } else { None } }' % (re.sub(r'\s*\.\s*', '.', recv), arg)
        pad = '\n' * max(0, out[rs:cl + 1].count('\n') - new.count('\n'))
        log.append(('R41', norm_ws(out[rs:cl + 1])[:120], norm_ws(new)[:160]))
        out = out[:rs] + new + pad + out[cl + 1:]


def rule_R42_vec_extend_option(text, log):
    """`V.extend(E);` -> `vx_extend_opt(&mut V, E);` (prelude: appends the value of an `Option`, which iterates over zero or one
    element; an argument of another type no longer type-checks: undecided)"""
    out = text
    rx = re.compile(r'\.\s*extend\s*\(')
    pos = 0
    while True:
        mask = code_mask(out)
        mm = next((m for m in rx.finditer(out) if m.start() >= pos and mask[m.start()]), None)
        if not mm:
            return out
        op = mm.end() - 1
        cl = match_brace(out, mask, op)
        rs = _recv_start(out, mask, mm.start())
        recv = norm_ws(out[rs:mm.start()])
        arg = out[op + 1:cl].strip()
        if not re.match(r'^[A-Za-z_][\w.]*$', re.sub(r'\s*\.\s*', '.', recv)) or not re.match(r'\s*;', out[cl + 1:]):
            pos = mm.end()
            continue
        new = 'vx_extend_opt(&mut %s, %s)' % (re.sub(r'\s*\.\s*', '.', recv), arg)
        log.append(('R42', norm_ws(out[rs:cl + 1])[:120], norm_ws(new)[:160]))
        out = out[:rs] + new + out[cl + 1:]
        pos = rs + 1


def rule_R43_drop(text, log):
    """`drop(X)` -> `vx_drop(X)` (prelude function with an empty body that takes its argument by value: what `core::mem::drop`
    is; the destructor that runs is under contract where a `Drop` impl is - U12 -, otherwise it has no effect on the model)"""
    out = text
    rx = re.compile(r'(?<![\w.:])drop\s*\(')
    pos = 0
    while True:
        mask = code_mask(out)
        mm = next((m for m in rx.finditer(out) if m.start() >= pos and mask[m.start()] and not re.search(r'\bfn\s+$', out[:m.start()])), None)
        if not mm:
            return out
        new = 'vx_drop('
        log.append(('R43', norm_ws(out[mm.start():mm.end() + 20])[:60], 'vx_drop(..)'))
        out = out[:mm.start()] + new + out[mm.end():]
        pos = mm.start() + len(new)


def rule_R32_or_else(text, log):
    """`OPT.or_else(|| B)` -> `(match OPT { Some(vx_v) => Some(vx_v), None => B })` (definition of Option::or_else)"""
    out = text
    rx = re.compile(r'\.\s*or_else\s*\(\s*\|\|')
    while True:
        mask = code_mask(out)
        mm = next((m for m in rx.finditer(out) if mask[m.start()]), None)
        if not mm:
            return out
        op = out.index('(', mm.start())
        cl = match_brace(out, mask, op)
        clo = out[op + 1:cl].strip()
        body = clo[2:].strip()
        rs = _recv_start(out, mask, mm.start())
        recv = out[rs:mm.start()]
        new = '(match %s { Some(vx_v) => Some(vx_v), None => %s })' % (recv, body)
        pad = '\n' * max(0, out[rs:cl + 1].count('\n') - new.count('\n'))
        log.append(('R32', norm_ws(out[rs:cl + 1])[:120], norm_ws(new)[:160]))
        out = out[:rs] + new + pad + out[cl + 1:]



def rule_R33_cmp_min_max(text, log):
    """`cmp::min(A, B)` -> `{ let vx_ma = A; let vx_mb = B; if vx_mb < vx_ma { vx_mb } else { vx_ma } }`, `cmp::max` likewise
    (definition of std::cmp::min / max for a totally ordered type: min returns the first argument when they are equal, max the second)"""
    out = text
    rx = re.compile(r'(?<![\w:])(?:(?:std|core)::)?cmp::(min|max)\s*\(')
    while True:
        mask = code_mask(out)
        mm = next((m for m in rx.finditer(out) if mask[m.start()]), None)
        if not mm:
            return out
        op = mm.end() - 1
        cl = match_brace(out, mask, op)
        args = _split_params(out[op + 1:cl])
        if len(args) != 2:
            raise Unsupported('R33: cmp::%s with %d arguments' % (mm.group(1), len(args)))
        if mm.group(1) == 'min':
            new = '{ let vx_ma = %s; let vx_mb = %s; if vx_mb < vx_ma { vx_mb } else { vx_ma } }' % (args[0], args[1])
        else:
            new = '{ let vx_ma = %s; let vx_mb = %s; if vx_mb < vx_ma { vx_ma } else { vx_mb } }' % (args[0], args[1])
        pad = '\n' * max(0, out[mm.start():cl + 1].count('\n') - new.count('\n'))
        log.append(('R33', norm_ws(out[mm.start():cl + 1])[:100], norm_ws(new)[:140]))
        out = out[:mm.start()] + new + pad + out[cl + 1:]



def rule_R5_labelled_for(text, log):
    """'l: for _ in 0..n { B }  ->  { let mut vx_i: usize = 0; 'l: while vx_i < n { vx_i += 1; B } }
    only for the shape `'l: for _ in 0..<ident> {` (counter unused)"""
    out = text
    while True:
        mask = code_mask(out)
        mm = next((m for m in re.finditer(r"('[a-z_]+)\s*:\s*for\s+_\s+in\s+0\s*\.\.\s*([A-Za-z_][\w.]*)\s*\{", out) if mask[m.start()]), None)
        if not mm:
            return out
        ob = mm.end() - 1
        cb = match_brace(out, mask, ob)
        lab, n = mm.group(1), mm.group(2)
        head = "{ let mut vx_i: usize = 0; %s: while vx_i < %s { vx_i += 1;" % (lab, n)
        log.append(('R5', norm_ws(mm.group(0)), head))
        out = out[:mm.start()] + head + out[ob + 1:cb + 1] + ' }' + out[cb + 1:]


# R6: redirects of std / foreign calls Verus has no spec for to same-named
# prelude functions (whose trusted contract is the std documentation).
def vx_strref(recv):
    """a field path names the string itself, a plain local (a `ref` binding) is already a reference"""
    return '&' + recv if '.' in recv else recv


R6_TABLE = [
    # `Some(&Enum::Unit)` pattern on an Option<&Enum>: match ergonomics make `Some(Enum::Unit)` the same pattern
    (r'\bSome\(&([A-Z]\w*(?:::[A-Z]\w*)+)\)(?=\s*(?:\||=>))', r'Some(\1)'),
    (r'&src\[([^\[\]]+?)\.\.\]', r'src.vx_from(\1)'),
    (r'\bu16::from_be_bytes\(src\[(\w+)\.\.\1 \+ 2\]\.try_into\(\)\.unwrap\(\)\)', r'vx_be16_at(src, \1)'),
    (r'&src\[(\w+) \+ 2\.\.\1 \+ 6\] == MQTT', r'vx_eq_mqtt_at(src, \1 + 2)'),
    (r'\bsrc\[([^\[\]\.]+)\]', r'src.vx_at(\1)'),
    (r'\bu16::from_be_bytes\(\[([^\[\],]+),\s*([^\[\],]+)\]\)', r'vx_u16_from_be(\1, \2)'),
    (r'\.map_err\(\|\(\)\| DecodeError::Utf8Error\)', '.vx_map_err_utf8()'),
    (r'\.map_or\(0, Bytes::len\)', '.vx_map_or_0_len()'),
    (r'\(\*cb\)\(', 'cb.vx_call('),
    (r'\|_\|', '|_vx0|'),
    (r'\|\(\)\|', '|_vx_u: ()|'),
    (r"(?<![\w.])(\w+)\.contains\(\['\+', '#'\]\)", r'vx_bstr_has_wild(\1)'),
    # str::contains with a pattern of printable ASCII: two-character array, one character, string literal (std documentation)
    (r"(?<![\w.])((?:\w+\.)*\w+)\.contains\(\['([ -&(-\[\]-~])', '([ -&(-\[\]-~])'\]\)", lambda m: 'vx_bstr_has_any2(%s, 0x%02Xu8, 0x%02Xu8)' % (vx_strref(m.group(1)), ord(m.group(2)), ord(m.group(3)))),
    (r"(?<![\w.])((?:\w+\.)*\w+)\.contains\('([ -&(-\[\]-~])'\)", lambda m: 'vx_bstr_has_any2(%s, 0x%02Xu8, 0x%02Xu8)' % (vx_strref(m.group(1)), ord(m.group(2)), ord(m.group(2)))),
    (r'(?<![\w.])((?:\w+\.)*\w+)\.contains\("([ !#-\[\]-~]{1,4})"\)', lambda m: 'vx_bstr_has_sub%d(%s, %s)' % (len(m.group(2)), vx_strref(m.group(1)), ', '.join('0x%02Xu8' % ord(c) for c in m.group(2)))),
    (r'\.(map_err|map)\(\s*([A-Z]\w*(?:::[A-Z]\w*)+)\s*\)', r'.\1(|vx_c| \2(vx_c))'),
    (r'\b([A-Za-z_][\w.]*)\s*\.map_or\(\s*([A-Za-z_][\w.]*)\s*,\s*\|val\|\s*cmp::min\(\s*\2\s*,\s*val\s*\)\s*\)', r'vx_min_opt(\2, \1)'),
    (r'([\w.]+(?:\([^()]*\))?(?:\.unwrap\(\))?)\.as_str\(\) != ([\w.]+)\.as_str\(\)', r'!vx_bstr_eq(\1.vx_b(), \2.vx_b())'),
    (r'(?<![\w.])topic\.is_empty\(\)', 'vx_str_is_empty(topic)'),
    (r'(?<![\w.])topic\.bytes\(\)', 'vx_str_bytes(topic)'),
    (r'&src\.as_ref\(\)\[0\.\.4\] == MQTT', 'vx_starts_with_mqtt(src)'),
    (r'\bu8::from\(((?:[a-z_]\w*\.)+(?:no_local|retain_as_published|dup|retain|session_present))\)', r'vx_u8_from_bool(\1)'),
    (r'Box<dyn Fn\(([^()]*)\)>', r'VxBoxFn<(\1)>'),
    (r'\.map_or\(0, \|v\| 1 \+ v\.encoded_size\(\)\)', '.vx_map_or_0_1_plus_encoded_size()'),
    (r'\b(?:MQTT|b"MQTT")\.as_ref\(\)\.encode\((\w+)\)', r'vx_encode_mqtt(\1)'),
    (r'\b(?:(?:core|std)::)?(?:num::)?NonZeroU16::MIN\b', 'vx_nz16_min()'),
    (r'\b(?:(?:core|std)::)?(?:num::)?NonZeroU16::MAX\b', 'vx_nz16_max()'),
]


def rule_R6_redirects(text, log):
    out = text
    if 'b"MQTT".as_ref().encode(' in out:
        log.append(('R6', 'b"MQTT".as_ref().encode(buf)', 'vx_encode_mqtt(buf)'))
        out = re.sub(r'b"MQTT"\.as_ref\(\)\.encode\((\w+)\)', r'vx_encode_mqtt(\1)', out)
    for pat, rep in R6_TABLE:
        rx = re.compile(pat)
        while True:
            mask = code_mask(out)
            mm = next((m for m in rx.finditer(out) if mask[m.start()]), None)
            if not mm:
                break
            new = rep(mm) if callable(rep) else mm.expand(rep)
            log.append(('R6', mm.group(0), new))
            out = out[:mm.start()] + new + out[mm.end():]
    return out


def rule_R11_drain(text, log):
    """for P in Q.drain(..) { B }  ->  while let Some(P) = Q.pop_front() { B }
    (VecDeque: drain(..) yields the elements front to back and leaves the queue empty;
    only when B has no break / return, so the loop always runs to completion)"""
    out = text
    while True:
        mask = code_mask(out)
        mm = next((m for m in re.finditer(r'\bfor\s+(.+?)\s+in\s+((?:\(&mut\s+[\w.]+\)|\w+(?:\(\))?)(?:\s*\.\s*\w+(?:\(\))?)*?)\s*\.\s*drain\(\.\.\)\s*\{', out) if mask[m.start()]), None)
        if not mm:
            return out
        ob = mm.end() - 1
        cb = match_brace(out, mask, ob)
        body = ''.join(c for k, c in enumerate(out[ob:cb]) if mask[ob + k])
        if re.search(r'\b(break|return)\b', body) or '?' in body:
            raise Unsupported('R11: drain loop body with early exit')
        new = 'while let Some(%s) = %s.pop_front() {' % (mm.group(1), mm.group(2))
        log.append(('R11', norm_ws(mm.group(0)), new))
        out = out[:mm.start()] + new + out[mm.end():]


def rule_R14b_for_ref_tuple(text, log):
    """for &(ref a, b) in E { B }  ->  for vx_r in E { let a = &vx_r.0; let b = vx_r.1; B }   (definition of the pattern)"""
    out = text
    rx = re.compile(r'\bfor\s+&\s*\(([^()]*)\)\s+in\s+([^{]+?)\s*\{')
    while True:
        mask = code_mask(out)
        mm = next((m for m in rx.finditer(out) if mask[m.start()]), None)
        if not mm:
            return out
        parts = [q.strip() for q in mm.group(1).split(',') if q.strip()]
        lets = []
        for k, q in enumerate(parts):
            m2 = re.match(r'^(ref\s+)?(mut\s+)?([A-Za-z_]\w*)$', q)
            if not m2:
                raise Unsupported('R14: tuple pattern element `%s`' % q)
            if m2.group(3) == '_':
                continue
            lets.append('let %s = %svx_r.%d;' % (m2.group(3), '&' if m2.group(1) else '', k))
        new = 'for vx_r in %s { %s' % (mm.group(2), ' '.join(lets))
        log.append(('R14', norm_ws(mm.group(0)), new))
        out = out[:mm.start()] + new + out[mm.end():]


def rule_R14_for_ref_pattern(text, log):
    """for &x in E { B }  ->  for vx_r_x in E { let x = *vx_r_x; B }   (definition of the & pattern for Copy items)"""
    out = text
    while True:
        mask = code_mask(out)
        mm = next((m for m in re.finditer(r'\bfor\s+&\s*([A-Za-z_]\w*)\s+in\s+([^{]+?)\s*\{', out) if mask[m.start()]), None)
        if not mm:
            return out
        x, e = mm.group(1), mm.group(2)
        new = 'for vx_r_%s in %s { let %s = *vx_r_%s;' % (x, e, x, x)
        log.append(('R14', norm_ws(mm.group(0)), new))
        out = out[:mm.start()] + new + out[mm.end():]


def rule_R15_or_pattern_ref_mut(text, log):
    """W(A(ref mut x) | B(ref mut x)) => { BODY }   ->   W(A(ref mut x)) => { BODY } W(B(ref mut x)) => { BODY }
    (an or-pattern is by definition the same arm taken for either alternative)"""
    out = text
    rx = re.compile(r'([A-Za-z_][\w:]*)\(\s*([\w:]+\(\s*ref\s+mut\s+\w+\s*\))\s*\|\s*([\w:]+\(\s*ref\s+mut\s+\w+\s*\))\s*,?\s*\)\s*=>\s*\{')
    while True:
        mask = code_mask(out)
        mm = next((m for m in rx.finditer(out) if mask[m.start()]), None)
        if not mm:
            return out
        ob = mm.end() - 1
        cb = match_brace(out, mask, ob)
        body = out[ob:cb + 1]
        w, a, b = mm.group(1), mm.group(2), mm.group(3)
        new = '%s(%s) => %s %s(%s) => %s' % (w, a, body, w, b, norm_ws(body))
        log.append(('R15', norm_ws(out[mm.start():ob]), '%s(%s) => {..} %s(%s) => {..}' % (w, a, w, b)))
        out = out[:mm.start()] + new + out[cb + 1:]


def rule_R17_hashmap_entry(text, log):
    """match M.entry(K) { Entry::Occupied(mut e) => A, Entry::Vacant(v) => B }
       ->  if M.contains_key(&K) A[e.get() := M.get(&K).unwrap(), e.insert(x) := M.insert(K, x)] else B[v.insert(x) := M.insert(K, x)]
    (definition of the HashMap entry API for a Copy key; the values returned by insert are not used)"""
    out = text
    # statement form `M.entry(K).or_insert_with(|| { B });`  ->  `if !M.contains_key(&K) { let vx_v = { B }; M.insert(K, vx_v); }`
    # and `M.entry(K).or_insert(V);` -> `if !M.contains_key(&K) { M.insert(K, V); }`   (definition; the returned reference is unused)
    rx2 = re.compile(r'(?<![\w.])([\w.]+)\.entry\((\w+)\)\.or_insert_with\(\s*\|\|\s*\{')
    while True:
        mask = code_mask(out)
        mm = next((m for m in rx2.finditer(out) if mask[m.start()]), None)
        if not mm:
            break
        ob = mm.end() - 1
        cb = match_brace(out, mask, ob)
        k = cb + 1
        while out[k].isspace():
            k += 1
        if out[k] != ')':
            raise Unsupported('R17: unexpected or_insert_with shape')
        k2 = k + 1
        while out[k2].isspace():
            k2 += 1
        if out[k2] != ';':
            raise Unsupported('R17: value of or_insert_with is used')
        m_, k_ = mm.group(1), mm.group(2)
        new = 'if !%s.contains_key(&%s) { let vx_v = %s; %s.insert(%s, vx_v); }' % (m_, k_, out[ob:cb + 1], m_, k_)
        log.append(('R17', norm_ws(mm.group(0)), 'if !%s.contains_key(&%s) { .. insert .. }' % (m_, k_)))
        out = out[:mm.start()] + new + out[k2 + 1:]
    rx = re.compile(r'\bmatch\s+([\w.]+)\.entry\((\w+)\)\s*\{')
    while True:
        mask = code_mask(out)
        mm = next((m for m in rx.finditer(out) if mask[m.start()]), None)
        if not mm:
            return out
        ob = mm.end() - 1
        cb = match_brace(out, mask, ob)
        inner = out[ob + 1:cb]
        imask = mask[ob + 1:cb]
        arms = []
        for am in re.finditer(r'(?:std::collections::hash_map::)?Entry::(Occupied|Vacant)\(\s*(?:mut\s+)?(\w+)\s*\)\s*=>\s*\{', inner):
            if not imask[am.start()]:
                continue
            b0 = am.end() - 1
            b1 = match_brace(inner, imask, b0)
            arms.append((am.group(1), am.group(2), inner[b0:b1 + 1]))
        if len(arms) != 2 or set(a[0] for a in arms) != set(['Occupied', 'Vacant']):
            raise Unsupported('R17: unexpected shape of match on .entry()')
        m_, k_ = mm.group(1), mm.group(2)
        bodies = {}
        for kind, name, body in arms:
            b = re.sub(r'\b%s\.get\(\)' % re.escape(name), '%s.get(&%s).unwrap()' % (m_, k_), body)
            b = re.sub(r'\b%s\.insert\(' % re.escape(name), '%s.insert(%s, ' % (m_, k_), b)
            if re.search(r'\b%s\b' % re.escape(name), b):
                raise Unsupported('R17: entry handle used in an unsupported way')
            bodies[kind] = b
        new = 'if %s.contains_key(&%s) %s else %s' % (m_, k_, bodies['Occupied'], bodies['Vacant'])
        # keep the line count: pad with the newlines that were in the match header/footer
        lost = out[mm.start():cb + 1].count('\n') - new.count('\n')
        new = new + '\n' * max(lost, 0)
        log.append(('R17', norm_ws(mm.group(0)), 'if %s.contains_key(&%s) {..} else {..}' % (m_, k_)))
        out = out[:mm.start()] + new + out[cb + 1:]


def rule_R10_inspect_err(text, log):
    """E.inspect_err(|_| { B })  ->  { let vx_r = E; if vx_r.is_err() { B } vx_r }
    (definition of Result::inspect_err for a closure that ignores its argument);
    E is the whole expression statement that precedes `.inspect_err`"""
    out = text
    while True:
        mask = code_mask(out)
        mm = next((m for m in re.finditer(r'\.inspect_err\(\|_\w*\|\s*\{', out) if mask[m.start()]), None)
        if not mm:
            return out
        ob = mm.end() - 1
        cb = match_brace(out, mask, ob)
        k = cb + 1
        while out[k].isspace():
            k += 1
        if out[k] != ')':
            raise Unsupported('R10: unexpected inspect_err shape')
        # receiver: back to the start of the expression = after previous '{' or ';' at same depth
        j = mm.start() - 1
        depth = 0
        while j >= 0:
            if mask[j]:
                c = out[j]
                if c in ')]}':
                    depth += 1
                elif c in '([{':
                    if depth == 0:
                        break
                    depth -= 1
                elif c == ';' and depth == 0:
                    break
            j -= 1
        recv = out[j + 1:mm.start()]
        lead = re.match(r'\s*', recv).group(0)
        new = lead + '{ let vx_r = ' + recv.strip() + '; if vx_r.is_err() ' + out[ob:cb + 1] + ' vx_r }'
        log.append(('R10', norm_ws(out[j + 1:k + 1])[:100], norm_ws(new)[:100]))
        out = out[:j + 1] + new + out[k + 1:]


# --------------------------------------------------------------------------
# R24: a call of a repository function that is not under contract (a helper a change has just introduced) is
# replaced by the helper's body with its parameters bound to the arguments (definition of a call).  Only for
# helpers without `return`, without generics and without recursion; a helper that uses `?` is inlined only at
# call sites that apply `?` to its result themselves.
# --------------------------------------------------------------------------

def _all_fns(src, mask, lo, hi, acc, owner=None):
    for it in items_in(src, mask, lo, hi):
        if it.kind == 'fn' and it.body_start is not None:
            acc.append((it, owner))
        elif it.kind in ('impl', 'mod') and it.body_start is not None:
            hdr = it.header
            if 'cfg(test)' in src[it.attrs_start:it.start] or (it.kind == 'mod' and it.name == 'tests'):
                continue
            _all_fns(src, mask, it.body_start + 1, it.end - 1, acc, it if it.kind == 'impl' else owner)


def _find_helper(unit, rel, name, qual=None):
    """definition of `fn name` with a body: in the calling function's own file first, then anywhere under src/"""
    cands = []
    files = [rel]
    root = os.path.join(unit.repo, 'src')
    for dp, _dn, fns in os.walk(root):
        for f in sorted(fns):
            if f.endswith('.rs'):
                r = os.path.relpath(os.path.join(dp, f), unit.repo)
                if r != rel:
                    files.append(r)
    for r in files:
        try:
            src, mask = unit.src(r)
        except AnchorLost:
            continue
        if not re.search(r'\bfn\s+%s\b' % re.escape(name), src):
            continue
        acc = []
        _all_fns(src, mask, 0, len(src), acc)
        here = [(it, ow) for it, ow in acc if it.name == name]
        if qual:
            here = [(it, ow) for it, ow in here if ow is not None and re.match(r'^impl(?:\s*<[^>]*>)?\s+(?:[\w:]+::)?%s\b(?!\s*for\b)' % re.escape(qual), norm_ws(ow.header))]
        if here:
            cands.extend((r, src, mask, it, ow) for it, ow in here)
            if r == rel:
                break
    if len(cands) != 1:
        return None
    return cands[0]


def _split_params(plist):
    parts = []
    depth = 0
    last = 0
    for i, c in enumerate(plist):
        if c in '([{<':
            depth += 1
        elif c in ')]}' or (c == '>' and plist[i - 1] != '-'):
            depth -= 1
        elif c == ',' and depth == 0:
            parts.append(plist[last:i])
            last = i + 1
    parts.append(plist[last:])
    return [q.strip() for q in parts if q.strip()]


def rule_R24_inline(unit, rel, text, ctx):
    names = getattr(unit, 'inline_names', None)
    if not names:
        return text
    out = text
    for name in sorted(names):
        guard = 0
        # `Type::name`: an associated function that the compiler misses on that type (several types have a `new`): only calls
        # written with that type are inlined, from the impl of that type
        qual, fname = (name.rsplit('::', 1) if '::' in name else (None, name))
        while True:
            guard += 1
            if guard > 20:
                raise Unsupported('R24: inlining of %s did not terminate' % name)
            mask = code_mask(out)
            call_rx = (r'(?<![\w:])(?:\w+::)*%s::%s\s*\(' % (re.escape(qual), re.escape(fname))) if qual else (r'(?<![\w])%s\s*\(' % re.escape(name))
            # a method of the same name that the contract file's own model defines (`state.drop_sink(..)`): only calls on `self` or a
            # field path of it are calls of the repository helper
            model_has = (not qual) and re.search(r'\bfn\s+%s\b' % re.escape(fname), getattr(unit, 'tmpl_text', '') or '') is not None
            mm = next((m for m in re.finditer(call_rx, out)
                       if mask[m.start()] and not re.search(r'\bfn\s+$', out[:m.start()])
                       and not (model_has and not re.search(r'(?:\bself(?:\s*\.\s*\w+)*\s*\.|\bSelf\s*::)\s*$', out[:m.start()]))), None)
            if not mm:
                break
            found = _find_helper(unit, rel, fname, qual)
            if found is None:
                raise Unsupported('R24: no unique definition of fn %s in the repository' % name)
            hrel, hsrc, hmask, it, owner = found
            header = hsrc[it.start:it.body_start]
            if re.search(r'\bfn\s+%s\s*<' % re.escape(fname), header) or re.search(r'\bimpl\b', header[re.search(r'\bfn\b', header).end():]) or 'async' in header.split('fn')[0]:
                raise Unsupported('R24: helper %s is generic / async' % name)
            hbody = hsrc[it.body_start + 1:it.end - 1]
            hbm = hmask[it.body_start + 1:it.end - 1]
            code = ''.join(c if hbm[k] else ' ' for k, c in enumerate(hbody))
            if re.search(r'\breturn\b', code):
                # early exits of the shape `if C { return V; } REST` at the top level of the helper are the expression
                # `if C { V } else { REST }` (definition of `return` in tail position of the else branch)
                for _k in range(6):
                    hbm = code_mask(hbody)
                    m_ = None
                    depth_ = 0
                    for mm_ in re.finditer(r'\bif\b', hbody):
                        if not hbm[mm_.start()]:
                            continue
                        if sum(1 for q, c_ in enumerate(hbody[:mm_.start()]) if hbm[q] and c_ in '{([') != sum(1 for q, c_ in enumerate(hbody[:mm_.start()]) if hbm[q] and c_ in '})]'):
                            continue
                        ob_ = None
                        dp_ = 0
                        for q in range(mm_.end(), len(hbody)):
                            if not hbm[q]:
                                continue
                            if hbody[q] in '([':
                                dp_ += 1
                            elif hbody[q] in ')]':
                                dp_ -= 1
                            elif hbody[q] == '{' and dp_ == 0:
                                ob_ = q
                                break
                        if ob_ is None:
                            continue
                        cb_ = match_brace(hbody, hbm, ob_)
                        inner_ = ''.join(c_ if hbm[ob_ + 1 + q] else ' ' for q, c_ in enumerate(hbody[ob_ + 1:cb_])).strip()
                        r_ = re.match(r'^return\b\s*(.*?);?$', inner_, re.S)
                        if r_ and not re.match(r'\s*else\b', hbody[cb_ + 1:]) and ';' not in r_.group(1) and 'return' not in r_.group(1):
                            m_ = (mm_.start(), ob_, cb_, r_.group(1).strip())
                            break
                    if m_ is None:
                        break
                    st_, ob_, cb_, val_ = m_
                    hbody = hbody[:ob_] + '{ ' + (val_ or '()') + ' } else {' + hbody[cb_ + 1:] + '\n}'
                hbm = code_mask(hbody)
                code = ''.join(c if hbm[k] else ' ' for k, c in enumerate(hbody))
                if re.search(r'\breturn\b', code):
                    raise Unsupported('R24: helper %s uses return' % name)
                unit.rule_log.append({'rule': 'R24', 'before': 'early `if C { return V; }` of helper %s' % name, 'after': '`if C { V } else { rest }`', 'where': rel})
            if re.search(r'(?:(?<![\w.:])|\bself\s*\.\s*|\bSelf\s*::\s*)%s\s*\(' % re.escape(fname), code) and not qual:
                raise Unsupported('R24: helper %s is recursive' % name)
            op = hsrc.index('(', re.compile(r'\bfn\s+%s\b' % re.escape(fname)).search(hsrc, it.start).end())
            cp = match_brace(hsrc, hmask, op)
            params = _split_params(hsrc[op + 1:cp])
            # call site: arguments and receiver
            aop = mm.end() - 1
            acl = match_brace(out, mask, aop)
            args = _split_params(out[aop + 1:acl])
            start = mm.start()
            recv = None
            pre = out[:start].rstrip()
            if pre.endswith('::'):
                # path call: Self::name( / module::name(
                q = len(pre) - 2
                while q > 0 and (out[q - 1].isalnum() or out[q - 1] in '_:'):
                    q -= 1
                start = q
            elif pre.endswith('.'):
                dot = len(pre) - 1
                rs = _recv_start(out, mask, dot)
                recv = out[rs:dot].strip()
                start = rs
            binds = []
            pnames = []
            if params and re.match(r'^(&\s*(\'\w+\s+)?(mut\s+)?)?self$', params[0]):
                sp = params[0]
                if recv is None:
                    if not args:
                        raise Unsupported('R24: method %s called without receiver' % name)
                    recv = args.pop(0)
                    # Type::method(&x, ..): the first argument already has the receiver's reference type
                    binds.append(('vx_self', None, recv))
                else:
                    amp = '&mut ' if 'mut' in sp and '&' in sp else ('&' if '&' in sp else '')
                    if amp == '&' and recv == 'self' and getattr(unit, 'cells', None):
                        # R3 has turned the `&self` methods of this unit into `&mut self` ones (interior mutability erased):
                        # the helper's receiver is the same object
                        amp = '&mut '
                    flip = getattr(unit, 'inline_flip', False)
                    simple = re.match(r'^[A-Za-z_]\w*$', recv) is not None
                    if recv == 'self' or (re.match(r'^self(\.\w+)+$', recv) and getattr(unit, 'block_substs', None)):
                        # the helper is a method of the same object (or of a field path of it, `self.inner.helper()`): its `self`
                        # is the caller's `self` (resp. `self.inner`), and the substitutions of the block that hosts the call then
                        # apply to the inlined text as well
                        binds.append((None, None, None if recv == 'self' else recv))
                    elif recv.startswith('&') or (simple and not flip) or (not simple and flip):
                        # a plain variable is taken to hold a reference already (typed `&mut _` binding = reborrow)
                        binds.append(('vx_self', (amp.strip() + ' _') if amp else None, recv))
                    else:
                        binds.append(('vx_self', None, amp + recv))
                params = params[1:]
                has_self = True
            else:
                has_self = False
                if recv is not None:
                    raise Unsupported('R24: %s is not a method but is called as one' % name)
            if len(params) != len(args):
                raise Unsupported('R24: %s: %d parameters, %d arguments' % (name, len(params), len(args)))
            body = hbody
            for pdecl, a in zip(params, args):
                pm = re.match(r'^(mut\s+)?([A-Za-z_]\w*)\s*:\s*(.*)$', pdecl, re.S)
                if not pm:
                    raise Unsupported('R24: parameter pattern of %s' % name)
                ty = re.sub(r"'\w+\s*", '', pm.group(3))
                # the helper's parameters get fresh names (they must not capture the caller's variables)
                fresh = 'vx_p_' + pm.group(2)
                bmk = code_mask(body)
                body = ''.join(body[k] for k in range(len(body)))
                pieces = []
                last = 0
                for m_ in re.finditer(r'(?<![\w.])%s\b(?!\s*::)' % re.escape(pm.group(2)), body):
                    if bmk[m_.start()]:
                        pieces.append(body[last:m_.start()])
                        pieces.append(fresh)
                        last = m_.end()
                pieces.append(body[last:])
                body = ''.join(pieces)
                binds.append(((pm.group(1) or '') + fresh, norm_ws(ty), a))
            if has_self:
                # `self` inside the helper is the receiver
                bm2 = code_mask(body)
                body = ''.join(body[k] for k in range(len(body)))
                if not any(b_[0] is None for b_ in binds):
                    body = re.sub(r'(?<![\w.])self\b', 'vx_self', body)
                else:
                    # the block that hosts the call renames parts of `self` (`self.sink.` => `sink.` ...): the same renamings
                    # apply to the helper's text, which talks about the same object
                    path_ = next((b_[2] for b_ in binds if b_[0] is None and b_[2]), None)
                    if path_:
                        bmx_ = code_mask(body)
                        pieces_ = []
                        last_ = 0
                        for m_ in re.finditer(r'(?<![\w.])self\b', body):
                            if bmx_[m_.start()]:
                                pieces_.append(body[last_:m_.start()])
                                pieces_.append(path_)
                                last_ = m_.end()
                        pieces_.append(body[last_:])
                        body = ''.join(pieces_)
                    for a_, b_, _opt in getattr(unit, 'block_substs', []) or []:
                        if '$' in a_ or 'self' not in a_:
                            continue
                        rx_ = re.compile(r'\s*'.join(re.escape(t_) for t_ in re.findall(r'\w+|[^\w\s]', a_)))
                        body = rx_.sub(lambda m_: b_, body)
                binds = [b_ for b_ in binds if b_[0] is not None]
                owner_ty = None
                if owner is not None:
                    om = re.match(r'^impl(?:\s*<[^>]*>)?\s+(?:[\w:<>, ]+\s+for\s+)?([\w:]+)', owner.header)
                    owner_ty = om.group(1) if om else None
                if owner_ty:
                    body = re.sub(r'\bSelf\b', owner_ty, body)
            elif owner is not None:
                om = re.match(r'^impl(?:\s*<[^>]*>)?\s+(?:[\w:<>, ]+\s+for\s+)?([\w:]+)', owner.header)
                if om:
                    body = re.sub(r'\bSelf\b', om.group(1), body)
            uses_q = '?' in ''.join(c if hbm[k] else ' ' for k, c in enumerate(hbody))
            after = out[acl + 1:].lstrip()
            if uses_q and not after.startswith('?'):
                raise Unsupported('R24: helper %s uses `?` and its result is not propagated with `?` at the call site' % name)
            tmps = []
            lets = []
            for k, (pn, ty, a) in enumerate(binds):
                ann = (': ' + ty) if ty else ''
                tmps.append('let vx_a%d%s = %s;' % (k, ann, a))
                lets.append('let %s%s = vx_a%d;' % (pn, ann, k))
            new = '{ ' + ' '.join(tmps) + ' ' + ' '.join(lets) + ' ' + norm_ws_keep(body) + ' }'
            pad = '\n' * max(0, out[start:acl + 1].count('\n') - new.count('\n'))
            unit.rule_log.append({'rule': 'R24', 'before': norm_ws(out[start:acl + 1])[:120], 'after': ('<body of fn %s (%s:%d) with its parameters bound to the arguments>' % (name, hrel, line_of(hsrc, it.start))), 'where': ctx})
            out = out[:start] + new + pad + out[acl + 1:]
    return out


def norm_ws_keep(body):
    """the helper body on one line; line comments are dropped (they would swallow the rest of the line)"""
    m = code_mask(body)
    txt = ''.join(c if (m[k] or c not in '\n') else ' ' for k, c in enumerate(body))
    # remove comments (masked ranges that start with //)
    outp = []
    k = 0
    while k < len(body):
        if not m[k] and body.startswith('//', k):
            j = body.find('\n', k)
            k = len(body) if j < 0 else j
            continue
        if not m[k] and body.startswith('/*', k):
            j = body.find('*/', k)
            k = len(body) if j < 0 else j + 2
            continue
        outp.append(body[k])
        k += 1
    return re.sub(r'\s*\n\s*', ' ', ''.join(outp)).strip()



def rule_selfmut(sig, log):
    new = re.sub(r'\(\s*&\s*self\b', '(&mut self', sig, count=1)
    if new != sig:
        log.append(('R3', '&self', '&mut self'))
    return new


# --------------------------------------------------------------------------
# emission
# --------------------------------------------------------------------------

class Chunk(object):
    __slots__ = ('text', 'origin', 'start', 'end')

    def __init__(self, text, origin):
        self.text = text
        self.origin = origin


class Unit(object):
    def __init__(self, name, repo):
        self.name = name
        self.repo = repo
        self.chunks = []
        self.rule_log = []          # (rule, before, after, file, fn)
        self.skipped_blocks = []
        self.guard_hazards = []
        self.guard_seen = set()
        self.lost_ghost_updates = []
        self.fns = {}               # fn_id -> dict(file, path, line, props, trusted, ...)
        self.clauses = []           # dict(fn, section, label, props, text)
        self.items = []             # extracted non-fn items
        self.cells = {}             # type -> [fields]
        self.lost_aids = []
        self.gone_fns = []
        self.late_hints = False
        self.rules = set(['R1', 'R2', 'ATTR', 'R4', 'R5', 'R6', 'R10', 'R11', 'R14', 'R15', 'R17', 'R22', 'R23', 'R25', 'R26', 'R27', 'R28', 'R29', 'R30', 'R33', 'R35', 'R36', 'R38', 'R39', 'R40', 'R41', 'R42', 'R43'])
        self.unit_props = []
        self.lemmas = []
        self.tmpl_fns = []          # hand-written exec/proof fns in template (name, props)
        self.trusted = []           # descriptions of trusted shims
        self._src_cache = {}
        self.probe = False
        self.tmpl_props = {}

    # ---- repo access
    def src(self, rel):
        if rel not in self._src_cache:
            p = os.path.join(self.repo, rel)
            if not os.path.exists(p):
                raise AnchorLost('file missing: ' + rel)
            with open(p) as fh:
                s = fh.read()
            self._src_cache[rel] = (s, code_mask(s))
        return self._src_cache[rel]

    def all_cell_fields(self):
        out = []
        for v in self.cells.values():
            out.extend(v)
        return out

    def rewrite(self, text, ctx, is_struct=False):
        log = []
        if 'ATTR' in self.rules:
            text = rule_attrs(text, log)
        if 'R1' in self.rules:
            text = rule_R1_logs(text, log)
        if 'R2' in self.rules:
            text = rule_R2_vis(text, log)
        fields = self.all_cell_fields()
        if fields:
            if is_struct:
                text = rule_R3_cells_struct(text, fields, log)
            else:
                text = rule_R3_cells_body(text, fields, log)
        if is_struct and 'R6' in self.rules:
            text = rule_R6_redirects(text, log)
        if not is_struct:
            if 'R4' in self.rules:
                text = rule_R4_letchains(text, log)
            if 'R5' in self.rules:
                text = rule_R5_labelled_for(text, log)
            if 'R6' in self.rules:
                text = rule_R6_redirects(text, log)
            if 'R10' in self.rules:
                text = rule_R10_inspect_err(text, log)
            if 'R11' in self.rules:
                text = rule_R11_drain(text, log)
            if 'R14' in self.rules:
                text = rule_R14b_for_ref_tuple(text, log)
                text = rule_R14_for_ref_pattern(text, log)
            if 'R15' in self.rules:
                text = rule_R15_or_pattern_ref_mut(text, log)
            if 'R17' in self.rules:
                text = rule_R17_hashmap_entry(text, log)
            if 'R18' in self.rules:
                text = rule_R18_slice_iter_cursor(text, log)
            if 'R19' in self.rules:
                text = rule_R19_enumerate(text, log)
            if 'R22' in self.rules:
                text = rule_R22_fold(text, log)
            if 'R23' in self.rules:
                text = rule_R23_map_or(text, log)
            if 'R25' in self.rules:
                text = rule_R25_filter_count(text, log)
            if 'R26' in self.rules:
                text = rule_R26_option_tests(text, log)
            if 'R27' in self.rules:
                text = rule_R27_map_collect(text, log)
            if 'R28' in self.rules:
                text = rule_R28_bitflags_or_assign(text, log)
            if 'R29' in self.rules:
                text = rule_R29_iter_copied(text, log)
            if 'R30' in self.rules:
                text = rule_R30_and_then(text, log)
            if 'R33' in self.rules:
                text = rule_R33_cmp_min_max(text, log)
            if 'R35' in self.rules:
                text = rule_R35_option_filter(text, log)
            if 'R36' in self.rules:
                text = rule_R36_range_for_each(text, log)
            if 'R40' in self.rules:
                text = rule_R40_debug_assert_eq(text, log)
            if 'R43' in self.rules:
                text = rule_R43_drop(text, log)
            if 'R42' in self.rules:
                text = rule_R42_vec_extend_option(text, log)
            if 'R41' in self.rules:
                text = rule_R41_bool_then_some(text, log)
            if 'R38' in self.rules:
                text = rule_R38_bool_then(text, log)
            if 'R39' in self.rules:
                text = rule_R39_option_transpose(text, log)
            if 'R34' in self.rules:
                text = rule_R34_map_err_closure(text, log)
            if 'R31' in self.rules:
                text = rule_R32_or_else(text, log)
                text = rule_R31_iter_predicates(text, log, deque='R31dq' in self.rules)
        self.last_guard_renames = [r[3] for r in log if len(r) > 3]
        for r in log:
            self.rule_log.append({'rule': r[0], 'before': r[1], 'after': r[2], 'where': ctx})
        return text

    def emit(self, text, origin):
        if text:
            self.chunks.append(Chunk(text, origin))

    def finish(self):
        off = 0
        parts = []
        for c in self.chunks:
            b = c.text.encode('utf-8')
            c.start = off
            off += len(b)
            c.end = off
            parts.append(b)
        return b''.join(parts)

    def chunk_at(self, byte_off):
        lo, hi = 0, len(self.chunks) - 1
        while lo <= hi:
            mid = (lo + hi) // 2
            c = self.chunks[mid]
            if byte_off < c.start:
                hi = mid - 1
            elif byte_off >= c.end:
                lo = mid + 1
            else:
                return c
        return None


def parse_locator(s):
    """'src/a.rs :: impl X :: fn y' -> (file, [segments])"""
    parts = [p.strip() for p in s.split('::: ')] if ':::' in s else None
    segs = [p.strip() for p in re.split(r'\s::\s', s.strip())]
    return segs[0], segs[1:]


def _split_label(line, default_props):
    """'  expr, //#C06:lab' -> ('  expr,', label, props)"""
    mm = re.search(r'//#\s*(?:([A-Z0-9,]+):)?([\w.\-]+)\s*$', line)
    if mm:
        props = mm.group(1).split(',') if mm.group(1) else list(default_props)
        return line[:mm.start()].rstrip(), mm.group(2), props
    return line, None, list(default_props)


def _find_fn_parts(text):
    """text of a fn item -> (sig_end_offset(body '{' or ';'), has_body)"""
    mask = code_mask(text)
    depth = 0
    for i, c in enumerate(text):
        if not mask[i]:
            continue
        if c in '([':
            depth += 1
        elif c in ')]':
            depth -= 1
        elif depth == 0 and c == '{':
            return i, True
        elif depth == 0 and c == ';':
            return i, False
    raise Unsupported('fn without body or ;')


def _name_return(sig, name):
    """-> T  =>  -> (name: T) ; the where clause (if any) is kept after it"""
    mask = code_mask(sig)
    depth = 0
    arrow = None
    for i, c in enumerate(sig):
        if not mask[i]:
            continue
        if c in '([<':
            if c != '<' or True:
                depth += (c in '([')
        elif c in ')]':
            depth -= 1
        elif depth == 0 and sig[i:i + 2] == '->':
            arrow = i
    if arrow is None:
        return sig
    rest = sig[arrow + 2:]
    wm = re.search(r'\bwhere\b', rest)
    ty = rest[:wm.start()] if wm else rest
    tail = rest[wm.start():] if wm else ''
    lead = re.match(r'\s*', ty).group(0)
    trail = ty[len(ty.rstrip()):]
    return sig[:arrow] + '->' + lead + '(%s: %s)' % (name, ty.strip()) + trail + tail


def _loop_headers(body, mask):
    """offsets (kw_start, body_brace) of loops in textual order"""
    out = []
    for mm in re.finditer(r"\b(while|loop|for)\b", body):
        if not mask[mm.start()]:
            continue
        if mm.group(1) == 'for' and re.match(r'\s*<', body[mm.end():]):
            continue
        depth = 0
        j = mm.end()
        while j < len(body):
            if mask[j]:
                c = body[j]
                if c in '([':
                    depth += 1
                elif c in ')]':
                    depth -= 1
                elif c == '{' and depth == 0:
                    break
            j += 1
        out.append((mm.start(), j))
    return out


def _find_anchor(body, mask, anchor, nth=1):
    """whitespace-insensitive search for `anchor` in code; returns offset"""
    toks = [re.escape(t) for t in anchor.split()]
    rx = re.compile(r'\s*'.join(toks))
    hits = [m for m in rx.finditer(body) if mask[m.start()]]
    if len(hits) < max(nth, 1) or (len(hits) > 1 and nth == 0):
        raise AnchorLost('statement anchor not found / ambiguous: `%s` (%d hits)' % (anchor, len(hits)))
    return hits[(nth or 1) - 1]

_RUST_KW = set('as break const continue crate else enum extern false fn for if impl in let loop match mod move mut pub ref return self Self static struct super trait true type unsafe use where while async await dyn'.split())


def _find_anchor_fuzzy(body, mask, anchor, nth=1):
    """the anchor with its local-variable-like identifiers as wildcards (same name -> same wildcard): tolerates renamed
    locals.  Returns (match, {old name: new name}); raises AnchorLost unless the match is unique (or the nth exists)."""
    toks = re.findall(r'[A-Za-z_]\w*|\s+|.', anchor)
    names = []
    pat = []
    for k, t in enumerate(toks):
        if t.isspace():
            continue
        prev = next((toks[j] for j in range(k - 1, -1, -1) if not toks[j].isspace()), '')
        nxt = next((toks[j] for j in range(k + 1, len(toks)) if not toks[j].isspace()), '')
        nxt2 = ''.join(toks[k + 1:k + 4]).lstrip()
        is_macro = nxt == '!' and not nxt2.startswith('!=')
        is_local = (re.match(r'^[a-z_][a-z0-9_]*$', t) and t not in _RUST_KW and prev != '.' and nxt != '(' and not is_macro
                    and not nxt2.startswith('::') and not (prev == ':' and k >= 2 and toks[k - 2] == ':'))
        if is_local:
            if t in names:
                pat.append('(?P=v%d)' % names.index(t))
            else:
                names.append(t)
                pat.append('(?P<v%d>[a-z_][a-z0-9_]*)' % (len(names) - 1))
        else:
            pat.append(re.escape(t))
    if not names:
        raise AnchorLost('no fuzzy form')
    rx = re.compile(r'\s*'.join(pat))
    hits = [m for m in rx.finditer(body) if mask[m.start()]]
    if len(hits) < max(nth, 1) or (len(hits) > 1 and nth == 0):
        raise AnchorLost('fuzzy anchor not found / ambiguous: `%s` (%d hits)' % (anchor, len(hits)))
    m = hits[(nth or 1) - 1]
    mapping = dict((n, m.group('v%d' % i)) for i, n in enumerate(names) if m.group('v%d' % i) != n)
    if any(v in _RUST_KW for v in mapping.values()):
        raise AnchorLost('fuzzy anchor matched a keyword')
    return m, mapping

def _pure_hint(lines_):
    """only `proof { .. }` with lemma calls / asserts: no ghost declaration, no assignment"""
    txt = ' '.join(l.strip() for l in lines_)
    if 'let ghost' in txt or 'let tracked' in txt:
        return False
    t2 = re.sub(r'==>|<==>|==|!=|<=|>=|=>', ' ', txt)
    return '=' not in t2


def _end_of_block_pos(body, mask, pos):
    """offset just after the last top-level `;` of the block that encloses pos (at or after pos), else pos"""
    depth = 0
    j = pos
    last = None
    while j < len(body):
        if mask[j]:
            c = body[j]
            if c in '{([':
                depth += 1
            elif c in '})]':
                if depth == 0:
                    break
                depth -= 1
            elif c == ';' and depth == 0:
                last = j + 1
        j += 1
    return last if last is not None else pos


def process_template(unit, tmpl_path, prelude_dir):
    with open(tmpl_path) as fh:
        lines = fh.read().split('\n')
    unit.tmpl_text = getattr(unit, 'tmpl_text', '') + '\n'.join(l for l in lines if not l.strip().startswith('//@'))
    i = 0
    n = len(lines)
    while i < n:
        ln = lines[i]
        st = ln.strip()
        if not st.startswith('//@'):
            unit.emit(ln + '\n', {'k': 'tmpl', 'line': i + 1, 'file': os.path.basename(tmpl_path)})
            mm = re.match(r'\s*(?:pub\s+)?(?:broadcast\s+)?proof\s+fn\s+(\w+)', ln)
            if mm:
                unit.lemmas.append(mm.group(1))
            if '#[verifier::external_body]' in ln or 'assume_specification' in ln or 'admit()' in ln or re.search(r'\bassume\s*\(', ln):
                unit.trusted.append('%s:%d %s' % (os.path.basename(tmpl_path), i + 1, norm_ws(ln)[:120]))
            i += 1
            continue
        d = st[3:].strip()
        if d.startswith('include '):
            p = os.path.join(prelude_dir, d[8:].strip())
            if not os.path.exists(p):
                p = os.path.join(os.path.dirname(tmpl_path), d[8:].strip())
            process_template(unit, p, prelude_dir)
            i += 1
        elif d.startswith('unit-props '):
            unit.unit_props = d[11:].split()
            i += 1
        elif d.startswith('cells '):
            ty, fl = d[6:].split(':')
            unit.cells[ty.strip()] = fl.split()
            i += 1
        elif d.startswith('rules '):
            for r in d[6:].split():
                if r.startswith('-'):
                    unit.rules.discard(r[1:])
                else:
                    unit.rules.add(r.lstrip('+'))
            i += 1
        elif d.startswith('item+ '):
            j = i + 1
            ghosts = []
            pre = []
            while j < n and lines[j].strip() != '//@end':
                g = lines[j].strip()
                if g.startswith('//@ attr '):
                    pre.append(g[len('//@ attr '):].strip())
                elif g.startswith('//@ ghost '):
                    ghosts.append(g[len('//@ ghost '):].strip())
                else:
                    raise Unsupported('%s:%d: only `//@ ghost <field>: <type>` / `//@ attr ..` lines allowed in //@item+' % (tmpl_path, j + 1))
                j += 1
            for a_ in pre:
                unit.emit(a_ + '\n', {'k': 'tmpl', 'line': j, 'file': os.path.basename(tmpl_path)})
            opts = {}
            loc = d[6:]
            mm = re.search(r'\s\[(.*)\]\s*$', loc)
            if mm:
                opts = dict((kv.split('=', 1) + [''])[:2] for kv in mm.group(1).split())
                loc = loc[:mm.start()]
            opts['ghosts'] = ghosts
            emit_item(unit, loc, opts)
            i = j + 1
        elif d.startswith('item '):
            opts = {}
            loc = d[5:]
            mm = re.search(r'\s\[(.*)\]\s*$', loc)
            if mm:
                opts = dict((kv.split('=', 1) + [''])[:2] for kv in mm.group(1).split())
                loc = loc[:mm.start()]
            emit_item(unit, loc, opts)
            i += 1
        elif d.startswith('block '):
            j = i + 1
            body = []
            while j < n and lines[j].strip() != '//@end':
                s2 = lines[j].strip()
                if not s2.startswith('//@'):
                    raise Unsupported('%s:%d: non-directive line inside //@block' % (tmpl_path, j + 1))
                body.append(lines[j].split('//@', 1)[1])
                j += 1
            try:
                emit_block(unit, d[6:], body, '%s:%d' % (os.path.basename(tmpl_path), i + 1))
            except AnchorLost as e_:
                # the statement range of this block is not found on this tree: the block is left out, the other functions of the
                # unit are still decided, and every property the block is tagged with is answered `undecided` unless another
                # obligation fails
                nm_ = next((r_.strip().split()[1] for r_ in body if r_.strip().split()[:1] == ['name'] and len(r_.strip().split()) > 1), '?')
                pm_ = next((r_.strip()[5:].strip() for r_ in body if r_.strip().split()[:1] == ['props']), '')
                ps_ = [x for x in re.split(r'[,\s]+', pm_) if x]
                for r_ in body:
                    for lm_ in re.finditer(r'//#\s*([A-Z0-9,]+):', r_):
                        for q_ in lm_.group(1).split(','):
                            if q_ and q_ not in ps_:
                                ps_.append(q_)
                unit.skipped_blocks.append({'block': nm_, 'props': ps_, 'why': 'anchor lost: %s' % e_})
            i = j + 1
        elif d.startswith('fn '):
            j = i + 1
            body = []
            while j < n and lines[j].strip() != '//@end':
                s2 = lines[j].strip()
                if not s2.startswith('//@'):
                    raise Unsupported('%s:%d: non-directive line inside //@fn block' % (tmpl_path, j + 1))
                body.append(lines[j].split('//@', 1)[1])
                j += 1
            if j >= n:
                raise Unsupported('%s:%d: //@fn without //@end' % (tmpl_path, i + 1))
            emit_fn(unit, d[3:], body, '%s:%d' % (os.path.basename(tmpl_path), i + 1))
            i = j + 1
        elif d.startswith('#') or d == '':
            i += 1
        else:
            raise Unsupported('%s:%d: unknown directive %r' % (tmpl_path, i + 1, d))


def emit_item(unit, loc, opts):
    rel, path = parse_locator(loc)
    src, mask = unit.src(rel)
    it = find_item(src, mask, path)
    start = it.attrs_start
    text = src[start:it.end]
    if it.kind == 'macro_call':
        text = expand_macro(unit, it, src, rel)
    if it.kind == 'mod':
        # a module of constants: visibility is normalised to `pub` instead of dropped (the items
        # must stay reachable from outside the module)
        sv = set(unit.rules)
        unit.rules.discard('R2')
        text = unit.rewrite(text, '%s :: %s' % (rel, ' :: '.join(path)), is_struct=True)
        unit.rules = sv
        text = re.sub(r'\bpub\s*\(\s*(?:super|crate|self|in\s+[\w:]+)\s*\)', 'pub', text)
        unit.rule_log.append({'rule': 'R2', 'before': 'pub(..) inside mod ' + it.name, 'after': 'pub', 'where': rel})
    elif it.kind != 'macro_call':
        text = unit.rewrite(text, '%s :: %s' % (rel, ' :: '.join(path)), is_struct=(it.kind in ('struct', 'enum')))
    if opts.get('ghosts'):
        k = text.rstrip().rfind('}')
        add = ''.join(' pub ghost %s,' % g for g in opts['ghosts'])
        text = text[:k] + add + ' ' + text[k:]
        for g in opts['ghosts']:
            unit.rule_log.append({'rule': 'GHOST', 'before': '', 'after': 'ghost field ' + g, 'where': loc})
    if 'exec_const' in opts:
        mm = re.match(r'(?s)\s*const\s+(\w+)\s*:\s*([^=]+?)\s*=\s*(.*);\s*$', text)
        if not mm:
            raise Unsupported('exec_const: not a plain const item: ' + loc)
        text = 'pub exec const %s: %s\n    ensures %s,\n{ %s }' % (mm.group(1), mm.group(2), opts['exec_const'].replace('~', ' '), mm.group(3))
        unit.rule_log.append({'rule': 'CONST', 'before': 'const %s = <exec expr>' % mm.group(1), 'after': 'exec const with ensures (initializer calls exec fns)', 'where': loc})
    if 'pub' in opts:
        mm = re.search(r'\b(struct|enum|fn|const|type|trait)\b', text)
        text = text[:mm.start()] + 'pub ' + text[mm.start():]
        if it.kind == 'struct':
            text = re.sub(r'(\n\s*)([a-z_][a-z0-9_]*\s*:)', r'\1pub \2', text)
    if 'strip_vis' in opts:
        text = re.sub(r'^\s*pub(\([^)]*\))?\s+', '', text)
    line = line_of(src, start)
    unit.items.append({'file': rel, 'path': ' :: '.join(path), 'line': line, 'end_line': line_of(src, it.end)})
    unit.emit(text + '\n', {'k': 'repo', 'file': rel, 'line': line, 'fn': None})


def expand_macro(unit, it, src, rel):
    """R7: template expansion of prim_enum! { .. } and bitflags! { .. } invocations.
    The expansion text mirrors the macro in src/utils.rs (prim_enum) and the
    documented semantics of bitflags 2.x for the methods the repo uses."""
    body = src[it.body_start + 1:it.end - 1]
    mask = code_mask(body)
    clean = ''.join(c if mask[k] else (' ' if c != '\n' else '\n') for k, c in enumerate(body))
    clean = re.sub(r'#\s*\[[^\]]*\]', lambda m: _blank(m.group(0)), clean)
    name = it.name.split('::')[-1]
    if name == 'prim_enum':
        mm = re.search(r'pub\s+enum\s+(\w+)\s*\{(.*)\}', clean, re.S)
        if not mm:
            raise Unsupported('prim_enum! shape')
        ename = mm.group(1)
        pairs = re.findall(r'(\w+)\s*=\s*(0x[0-9A-Fa-f_]+|0b[01_]+|\d+)', mm.group(2))
        if not pairs:
            raise Unsupported('prim_enum! variants')
        out = ['#[derive(Copy, Clone)]', 'pub enum %s {' % ename]
        for v, val in pairs:
            out.append('    %s = %s,' % (v, val))
        out.append('}')
        out.append('impl core::convert::TryFrom<u8> for %s {' % ename)
        out.append('    type Error = DecodeError;')
        out.append('    fn try_from(v: u8) -> (r: Result<Self, Self::Error>)')
        out.append('        ensures r == %s_spec_try_from(v)' % ename)
        out.append('    {')
        out.append('        match v {')
        for v, val in pairs:
            out.append('            %s => Ok(%s::%s),' % (val, ename, v))
        out.append('            _ => Err(DecodeError::MalformedPacket)')
        out.append('        }')
        out.append('    }')
        out.append('}')
        out.append('impl vstd::std_specs::convert::TryFromSpecImpl<u8> for %s {' % ename)
        out.append('    open spec fn obeys_try_from_spec() -> bool { false }')
        out.append('    open spec fn try_from_spec(v: u8) -> Result<Self, DecodeError> { %s_spec_try_from(v) }' % ename)
        out.append('}')
        out.append('pub open spec fn %s_spec_try_from(v: u8) -> Result<%s, DecodeError> {' % (ename, ename))
        for v, val in pairs:
            out.append('    if v == %s { Ok(%s::%s) } else' % (val, ename, v))
        out.append('    { Err(DecodeError::MalformedPacket) }')
        out.append('}')
        out.append('pub open spec fn %s_spec_to_u8(x: %s) -> u8 {' % (ename, ename))
        out.append('    match x {')
        for v, val in pairs:
            out.append('        %s::%s => %s,' % (ename, v, val))
        out.append('    }')
        out.append('}')
        out.append('pub fn %s_to_u8(x: %s) -> (r: u8) ensures r == %s_spec_to_u8(x) {' % (ename, ename, ename))
        out.append('    match x {')
        for v, val in pairs:
            out.append('        %s::%s => %s,' % (ename, v, val))
        out.append('    }')
        out.append('}')
        # derive(PartialEq, Eq) of the macro, written out so that its body is verified (= discriminant equality)
        out.append('impl PartialEq for %s {' % ename)
        out.append('    fn eq(&self, other: &Self) -> (r: bool) { %s_to_u8(*self) == %s_to_u8(*other) }' % (ename, ename))
        out.append('}')
        out.append('impl Eq for %s {}' % ename)
        out.append('impl vstd::std_specs::cmp::PartialEqSpecImpl for %s {' % ename)
        out.append('    open spec fn obeys_eq_spec() -> bool { true }')
        out.append('    open spec fn eq_spec(&self, other: &Self) -> bool { *self == *other }')
        out.append('}')
        if 'PartialOrd' in body:
            # derive(PartialOrd) on a repr(u8) enum = order of the discriminants; body verified
            out.append('impl PartialOrd for %s {' % ename)
            out.append('    fn partial_cmp(&self, other: &Self) -> (r: Option<core::cmp::Ordering>) { %s_to_u8(*self).partial_cmp(&%s_to_u8(*other)) }' % (ename, ename))
            out.append('}')
            out.append('impl vstd::std_specs::cmp::PartialOrdSpecImpl for %s {' % ename)
            out.append('    open spec fn obeys_partial_cmp_spec() -> bool { true }')
            out.append('    open spec fn partial_cmp_spec(&self, other: &Self) -> Option<core::cmp::Ordering> {')
            out.append('        if %s_spec_to_u8(*self) < %s_spec_to_u8(*other) { Some(core::cmp::Ordering::Less) } else if %s_spec_to_u8(*self) > %s_spec_to_u8(*other) { Some(core::cmp::Ordering::Greater) } else { Some(core::cmp::Ordering::Equal) }' % (ename, ename, ename, ename))
            out.append('    }')
            out.append('}')
        out.append('impl core::convert::From<%s> for u8 {' % ename)
        out.append('    fn from(v: %s) -> (r: u8) ensures r == %s_spec_to_u8(v) { %s_to_u8(v) }' % (ename, ename, ename))
        out.append('}')
        out.append('impl vstd::std_specs::convert::FromSpecImpl<%s> for u8 {' % ename)
        out.append('    open spec fn obeys_from_spec() -> bool { true }')
        out.append('    open spec fn from_spec(v: %s) -> Self { %s_spec_to_u8(v) }' % (ename, ename))
        out.append('}')
        unit.rule_log.append({'rule': 'R7', 'before': 'prim_enum! { pub enum %s .. }' % ename,
                              'after': 'enum + TryFrom<u8> + From<enum> for u8 (match instead of transmute; repr(u8) discriminants) (%d variants)' % len(pairs),
                              'where': rel})
        return '\n'.join(out)
    if name == 'bitflags':
        mm = re.search(r'struct\s+(\w+)\s*:\s*(\w+)\s*\{(.*)\}', clean, re.S)
        if not mm:
            raise Unsupported('bitflags! shape')
        sname, ty = mm.group(1), mm.group(2)
        consts = re.findall(r'const\s+(\w+)\s*=\s*(0x[0-9A-Fa-f_]+|0b[01_]+|\d+)\s*;', mm.group(3))
        def lit(v):
            return int(v.replace('_', ''), 0)
        out = ['#[derive(Copy, Clone, PartialEq, Eq)]', 'pub struct %s { pub bits: %s }' % (sname, ty)]
        out.append('pub open spec fn fl_has(b: %s, m: %s) -> bool { b & m == m }' % (ty, ty) if not getattr(unit, '_fl_has_' + ty, False) else '')
        setattr(unit, '_fl_has_' + ty, True)
        out.append('impl %s {' % sname)
        allbits = ' | '.join(val for _, val in consts)
        allv = 0
        for c, val in consts:
            allv |= lit(val)
            out.append('    pub const %s: %s = %s { bits: %s };' % (c, sname, sname, val))
        out.append('    pub open spec fn all_bits() -> %s { %d%s }' % (ty, allv, ty))
        out.append('    pub fn bits(&self) -> (r: %s) ensures r == self.bits { self.bits }' % ty)
        out.append('    pub fn empty() -> (r: Self) ensures r.bits == 0 { %s { bits: 0 } }' % sname)
        out.append('    pub fn contains(&self, other: Self) -> (r: bool) ensures r == fl_has(self.bits, other.bits) { self.bits & other.bits == other.bits }')
        out.append('    pub fn intersects(&self, other: Self) -> (r: bool) ensures r == (self.bits & other.bits != 0) { self.bits & other.bits != 0 }')
        out.append('    pub fn insert(&mut self, other: Self)')
        out.append('        ensures final(self).bits == old(self).bits | other.bits, fl_has(final(self).bits, other.bits),')
        out.append('            forall|m: %s| #![trigger fl_has(final(self).bits, m)] (m & other.bits == 0) ==> (fl_has(final(self).bits, m) == fl_has(old(self).bits, m)),' % ty)
        out.append('    {')
        out.append('        let ghost o = self.bits; let ghost p = other.bits;')
        out.append('        self.bits = self.bits | other.bits;')
        out.append('        let ghost n = self.bits;')
        out.append('        assert(fl_has(n, p)) by (bit_vector) requires n == o | p;')
        out.append('        assert forall|m: %s| #![trigger fl_has(n, m)] (m & p == 0) implies (fl_has(n, m) == fl_has(o, m)) by {' % ty)
        out.append('            assert((m & p == 0) ==> ((o | p) & m == m) == (o & m == m)) by (bit_vector);')
        out.append('        }')
        out.append('    }')
        out.append('    pub fn remove(&mut self, other: Self)')
        out.append('        ensures final(self).bits == old(self).bits & !other.bits, other.bits != 0 ==> !fl_has(final(self).bits, other.bits),')
        out.append('            forall|m: %s| #![trigger fl_has(final(self).bits, m)] (m & other.bits == 0) ==> (fl_has(final(self).bits, m) == fl_has(old(self).bits, m)),' % ty)
        out.append('    {')
        out.append('        let ghost o = self.bits; let ghost p = other.bits;')
        out.append('        self.bits = self.bits & !other.bits;')
        out.append('        let ghost n = self.bits;')
        out.append('        assert(p != 0 ==> !fl_has(n, p)) by (bit_vector) requires n == o & !p;')
        out.append('        assert forall|m: %s| #![trigger fl_has(n, m)] (m & p == 0) implies (fl_has(n, m) == fl_has(o, m)) by {' % ty)
        out.append('            assert((m & p == 0) ==> ((o & !p) & m == m) == (o & m == m)) by (bit_vector);')
        out.append('        }')
        out.append('    }')
        out.append('    pub fn set(&mut self, other: Self, value: bool)')
        out.append('        ensures value ==> fl_has(final(self).bits, other.bits), !value && other.bits != 0 ==> !fl_has(final(self).bits, other.bits),')
        out.append('            forall|m: %s| #![trigger fl_has(final(self).bits, m)] (m & other.bits == 0) ==> (fl_has(final(self).bits, m) == fl_has(old(self).bits, m)),' % ty)
        out.append('    { if value { self.insert(other); } else { self.remove(other); } }')
        out.append('    pub fn from_bits_truncate(bits: %s) -> (r: Self) ensures r.bits == bits & %d%s { %s { bits: bits & %d } }' % (ty, allv, ty, sname, allv))
        out.append('    pub fn from_bits(bits: %s) -> (r: Option<Self>) ensures r == (if bits & !%d%s == 0 { Some(%s { bits }) } else { None::<%s> }) { if bits & !%d%s == 0 { Some(%s { bits }) } else { None } }' % (ty, allv, ty, sname, sname, allv, ty, sname))
        out.append('}')
        out.append('impl core::ops::BitAnd for %s {' % sname)
        out.append('    type Output = %s;' % sname)
        out.append('    fn bitand(self, other: Self) -> (r: Self) { %s { bits: self.bits & other.bits } }' % sname)
        out.append('}')
        out.append('impl vstd::std_specs::ops::BitAndSpecImpl<%s> for %s {' % (sname, sname))
        out.append('    open spec fn obeys_bitand_spec() -> bool { true }')
        out.append('    open spec fn bitand_req(self, other: %s) -> bool { true }' % sname)
        out.append('    open spec fn bitand_spec(self, other: %s) -> %s { %s { bits: self.bits & other.bits } }' % (sname, sname, sname))
        out.append('}')
        out.append('impl core::ops::BitOr for %s {' % sname)
        out.append('    type Output = %s;' % sname)
        out.append('    fn bitor(self, other: Self) -> (r: Self) { %s { bits: self.bits | other.bits } }' % sname)
        out.append('}')
        out.append('impl vstd::std_specs::ops::BitOrSpecImpl<%s> for %s {' % (sname, sname))
        out.append('    open spec fn obeys_bitor_spec() -> bool { true }')
        out.append('    open spec fn bitor_req(self, other: %s) -> bool { true }' % sname)
        out.append('    open spec fn bitor_spec(self, other: %s) -> %s { %s { bits: self.bits | other.bits } }' % (sname, sname, sname))
        out.append('}')
        # pairwise disjointness facts (literals only), each discharged by bit_vector
        facts = []
        for i1, (c1, v1) in enumerate(consts):
            for i2, (c2, v2) in enumerate(consts):
                if i1 != i2 and lit(v1) & lit(v2) == 0:
                    facts.append((c1, c2, lit(v1), lit(v2)))
        out.append('pub proof fn %s_disjoint()' % sname)
        out.append('    ensures')
        for c1, c2, _, _ in facts:
            out.append('        %s::%s.bits & %s::%s.bits == 0,' % (sname, c1, sname, c2))
        for c, val in consts:
            out.append('        %s::%s.bits != 0,' % (sname, c))
        out.append('{')
        for c1, c2, v1, v2 in facts:
            out.append('    assert(%d%s & %d%s == 0) by (bit_vector);' % (v1, ty, v2, ty))
        out.append('}')
        unit.rule_log.append({'rule': 'R7', 'before': 'bitflags! { struct %s: %s .. }' % (sname, ty),
                              'after': 'struct + consts + contains/insert/remove/bits/empty/from_bits[_truncate] (%d flags); bodies verified against their bit-level contracts' % len(consts),
                              'where': rel})
        return '\n'.join(out)
    raise Unsupported('macro invocation %s! cannot be expanded' % it.name)


def _trait_default(unit, src, mask, path):
    """path = [.., 'impl crate::a::b::Trait for T', 'fn name']: returns (rel, src, mask, item) of the default method
    `fn name` in `trait Trait` of src/a/b.rs (or src/a/b/mod.rs), or None"""
    if len(path) < 2 or not path[-1].startswith('fn '):
        return None
    mm = re.match(r'^impl(?:\s*<[^>]*>)?\s+crate::((?:\w+::)+)(\w+)(?:<[^>]*>)?\s+for\b', path[-2])
    if not mm:
        return None
    try:
        find_item(src, mask, path[:-1])     # the impl itself must still be there
    except AnchorLost:
        return None
    mods = mm.group(1).rstrip(':').split('::')
    for cand in ('src/' + '/'.join(mods) + '.rs', 'src/' + '/'.join(mods) + '/mod.rs'):
        try:
            tsrc, tmask = unit.src(cand)
        except AnchorLost:
            continue
        try:
            it = find_item(tsrc, tmask, ['trait ' + mm.group(2), path[-1]])
        except AnchorLost:
            continue
        if it.kind == 'fn' and it.body_start is not None:
            return cand, tsrc, tmask, it
    return None


def emit_fn(unit, loc, dlines, tmpl_where):
    rel, path = parse_locator(loc)
    src, mask = unit.src(rel)
    try:
        it = find_item(src, mask, path)
    except AnchorLost:
        # a method that is missing from `impl <crate::path::Trait> for T` runs the trait's default body:
        # that body is then the code under contract (logged)
        dflt = _trait_default(unit, src, mask, path)
        if dflt is None:
            # the enclosing impl / mod is still there and only this fn is gone: the function was deleted.  Its own
            # obligations go with it (logged); what its former callers now do is decided by their contracts.
            gone = False
            if len(path) >= 2 and path[-1].startswith('fn '):
                try:
                    find_item(src, mask, path[:-1])
                    gone = not re.search(r'\bfn\s+%s\b' % re.escape(path[-1][3:].strip()), ''.join(c if mask[k] else ' ' for k, c in enumerate(src)))
                except AnchorLost:
                    # the enclosing impl is gone as well: deleted together with its function, provided no function of
                    # this name is left anywhere in the file (otherwise the impl may merely have been rewritten: undecided)
                    gone = not re.search(r'\bfn\s+%s\b' % re.escape(path[-1][3:].strip()), ''.join(c if mask[k] else ' ' for k, c in enumerate(src)))
            if not gone:
                raise
            unit.gone_fns.append({'fn': ' :: '.join(path), 'file': rel})
            unit.rule_log.append({'rule': 'GONE', 'before': '%s :: %s' % (rel, ' :: '.join(path)), 'after': 'no function of this name is left in the file: its contract is dropped, its former callers are checked against theirs', 'where': loc})
            return
        rel, src, mask, it = dflt
        unit.rule_log.append({'rule': 'DEFAULT', 'before': '%s has no `%s`' % (' :: '.join(path[:-1]), path[-1]), 'after': 'the default method of the trait in %s is what runs' % rel, 'where': loc})
    if it.kind != 'fn':
        raise AnchorLost('%s is not a fn' % loc)
    fn_name = it.name
    owner = ''
    for seg in path[:-1]:
        owner += re.sub(r'^(impl|trait|mod)\s*(<[^>]*>)?\s*', '', seg).strip() + '::'
    fn_id = owner + fn_name
    if fn_id in unit.fns:
        fn_id = fn_id + '@' + rel
    start = it.attrs_start
    text = src[start:it.end]
    line0 = line_of(src, start)
    emit_fn_text(unit, rel, path, fn_id, text, line0, line_of(src, it.end), dlines, tmpl_where)


class _Span(object):
    def __init__(self, a, b):
        self._a, self._b = a, b

    def start(self):
        return self._a

    def end(self):
        return self._b


class _Span0(object):
    def __init__(self, a):
        self._a = a

    def start(self):
        return self._a

    def end(self):
        return self._a


def rule_R21_iter_quant(blk, recv_iter, elem_ty, spec_expr, unit, name, rel):
    """`RECV.iter().any(|PAT| BODY)` / `.all(..)`  ->  `vx_iter_any(&RECV, |vx_e: ELEM| -> (vx_r: bool) ensures vx_r == (SPEC) { let PAT = vx_e; BODY })`
    (prelude functions vx_iter_any / vx_iter_all: loops verified against the closure's own contract; ELEM and SPEC come
    from the contract file, the closure body is the repository's)"""
    if not recv_iter.endswith('.iter()'):
        raise Unsupported('%s: iter_quant receiver must end with .iter()' % name)
    recv = recv_iter[:-len('.iter()')]
    rx = re.compile(r'\s*'.join(re.escape(t) for t in re.findall(r'\w+|[^\w\s]', recv_iter)) + r'\s*\.\s*(any|all)\s*\(\s*\|')
    mask = code_mask(blk)
    mm = next((m for m in rx.finditer(blk) if mask[m.start()]), None)
    if mm is None:
        unit.lost_aids.append({'fn': name, 'aid': 'iterator quantifier over `%s` (not present in the block any more)' % recv_iter})
        return blk
    # closure parameter pattern up to the closing `|` (depth-aware for tuple patterns)
    j = mm.end()
    depth = 0
    while j < len(blk):
        c = blk[j]
        if c in '([':
            depth += 1
        elif c in ')]':
            depth -= 1
        elif c == '|' and depth == 0:
            break
        j += 1
    pat = blk[mm.end():j].strip()
    # the call's opening parenthesis is the last `(` of the match; its closing one ends the closure body
    op = blk.rindex('(', mm.start(), mm.end())
    cl = match_brace(blk, mask, op)
    body = blk[j + 1:cl].strip()
    new = 'vx_iter_%s(&%s, |vx_e: %s| -> (vx_r: bool) ensures vx_r == (%s) { let %s = vx_e; %s })' % (mm.group(1), recv, elem_ty, spec_expr, pat, body)
    pad = '\n' * blk[mm.start():cl + 1].count('\n')
    unit.rule_log.append({'rule': 'R21', 'before': norm_ws(blk[mm.start():cl + 1])[:120], 'after': norm_ws(new)[:160], 'where': '%s block %s' % (rel, name)})
    return blk[:mm.start()] + new + pad + blk[cl + 1:]


def guard_hazards(unit, rel, path, src, mask, it):
    """GUARD (ownership condition, checked on the text, once per source function that a block is cut from): a `match` / `if let` /
    `while let` whose scrutinee creates a RefCell guard (`.borrow()` / `.borrow_mut()` temporary) keeps that guard alive for the
    whole body (Rust: scrutinee temporaries live to the end of the statement); if the body contains `.await`, the cell is still
    borrowed while other calls of the same dispatcher run - the next `borrow_mut()` of it panics.  The cells are erased from the
    verified text (R3 / block renamings), so this is the one property of them that is checked apart."""
    key = (rel, ' :: '.join(path))
    if key in unit.guard_seen:
        return
    unit.guard_seen.add(key)
    body = src[it.body_start:it.end]
    bm = mask[it.body_start:it.end]
    for mm in re.finditer(r'\b(match|if\s+let|while\s+let)\b', body):
        if not bm[mm.start()]:
            continue
        # scrutinee: up to the `{` that opens the body (for if/while let: after the `=`)
        depth = 0
        ob = None
        for q in range(mm.end(), len(body)):
            if not bm[q]:
                continue
            c = body[q]
            if c in '([':
                depth += 1
            elif c in ')]':
                depth -= 1
            elif c == '{' and depth == 0:
                ob = q
                break
            elif c == ';' and depth == 0:
                break
        if ob is None:
            continue
        scrut = ''.join(ch if bm[mm.end() + k] else ' ' for k, ch in enumerate(body[mm.end():ob]))
        if mm.group(1) != 'match':
            eq = scrut.find('=')
            if eq < 0:
                continue
            scrut = scrut[eq + 1:]
        if not re.search(r'\.\s*borrow(_mut)?\s*\(\s*\)', scrut):
            continue
        cb = match_brace(body, bm, ob)
        if mm.group(1) == 'match':
            inner = body[ob:cb]
            im = bm[ob:cb]
        else:
            # an `if let` keeps the temporaries through its else branches as well (edition 2021)
            end = _if_chain_end(body, bm, mm.start()) if mm.group(1).startswith('if') else cb + 1
            inner = body[ob:end]
            im = bm[ob:end]
        if any(im[m2.start()] for m2 in re.finditer(r'\.\s*await\b', inner)):
            unit.guard_hazards.append({'file': rel, 'fn': ' :: '.join(path), 'line': line_of(src, it.body_start + mm.start()),
                                       'scrutinee': norm_ws(scrut.strip())[:160]})


def emit_block(unit, loc, dlines, tmpl_where):
    """R9: a statement range of a (possibly async) fn, located by a start and an end anchor, is wrapped
    verbatim into a synthetic fn whose name and parameter list come from the contract file:
        //@block <file> :: <fn path> :: `start anchor` .. `end anchor`
        //@ name f
        //@ sig (a: A, b: &mut B) -> R
        //@ fallthrough `expr`        tail expression appended when the range can fall through
        //@ subst `x.y` => `z`        free-variable renaming inside the range (logged)
    the range must not contain `.await` (checked)"""
    mm = re.match(r'^(.*?)\s::\s`(.*)`\s\.\.(<?)\s`(.*)`\s*$', loc)
    if not mm:
        raise Unsupported('%s: bad //@block locator' % tmpl_where)
    rel, path = parse_locator(mm.group(1))
    nm_ = next((r_.strip().split()[1] for r_ in dlines if r_.strip().split()[:1] == ['name'] and len(r_.strip().split()) > 1), None)
    if nm_ is not None and nm_ in (getattr(unit, 'skip_blocks', None) or ()):
        # the driver has found that this block's text does not compile on this tree (a local it returns or renames is gone):
        # it is left out so that the rest of the unit is still decided; the property it belongs to is answered `undecided`
        pm_ = next((r_.strip()[5:].strip() for r_ in dlines if r_.strip().split()[:1] == ['props']), '')
        ps_ = [x for x in re.split(r'[,\s]+', pm_) if x]
        for r_ in dlines:
            for lm_ in re.finditer(r'//#\s*([A-Z0-9,]+):', r_):
                for q_ in lm_.group(1).split(','):
                    if q_ and q_ not in ps_:
                        ps_.append(q_)
        unit.skipped_blocks.append({'block': nm_, 'props': ps_})
        return
    a_txt, b_txt = mm.group(2), mm.group(4)
    end_exclusive = mm.group(3) == '<'   # `a` ..< `b`: up to, not including, the statement that starts with b
    src, mask = unit.src(rel)
    it = find_item(src, mask, path)
    if it.kind != 'fn' or it.body_start is None:
        raise AnchorLost('%s is not a fn with a body' % mm.group(1))
    guard_hazards(unit, rel, path, src, mask, it)
    body = src[it.body_start:it.end]
    bmask = mask[it.body_start:it.end]
    name = None
    sig = None
    fall = ''
    eager = False
    substs = []
    iter_quants = []
    rest = []
    for raw in dlines:
        st = raw.strip()
        if re.match(r'^ ?\S', raw) and st.split()[0] == 'name':
            name = st.split()[1]
        elif re.match(r'^ ?\S', raw) and st.split()[0] == 'sig':
            sig = st[3:].strip()
        elif re.match(r'^ ?\S', raw) and st.split()[0] == 'fallthrough':
            fall = re.match(r'fallthrough\s+`(.*)`\s*$', st).group(1)
        elif re.match(r'^ ?\S', raw) and st.split()[0] == 'eager':
            # the range must run when the function is *called*: the function is not an `async fn` and the range does not sit
            # inside an `async` block (whose body runs only when the returned future is first polled)
            eager = True
        elif re.match(r'^ ?\S', raw) and st.split()[0] == 'iter_quant':
            m3 = re.match(r'iter_quant\s+`(.*)`\s+elem\s+`(.*)`\s+spec\s+`(.*)`\s*$', st)
            if not m3:
                raise Unsupported('%s: bad iter_quant' % tmpl_where)
            iter_quants.append((m3.group(1), m3.group(2), m3.group(3)))
        elif re.match(r'^ ?\S', raw) and st.split()[0] in ('subst', 'subst?'):
            # `subst?`: a renaming written for a form the code does not have at present (another way of writing the same call)
            m2 = re.match(r'subst\??\s+`(.*)`\s*=>\s*`(.*)`\s*$', st)
            substs.append((m2.group(1), m2.group(2), st.split()[0] == 'subst?'))
        else:
            rest.append(raw)
    if not name or not sig:
        raise Unsupported('%s: //@block needs name and sig' % tmpl_where)
    blk_renames = {}
    try:
        if a_txt == '^':
            ma = _Span(1, 1)      # just after the brace that opens the function body
        else:
            ma = _find_anchor(body, bmask, a_txt, 0)
    except AnchorLost:
        # renamed locals: the anchor with its local-variable-like identifiers as wildcards
        ma, mp_ = _find_anchor_fuzzy(body, bmask, a_txt, 0)
        blk_renames.update(mp_)
    if b_txt not in ('$', '{*}', '{}') and not b_txt.startswith('{<'):
        rxb_ = re.compile(r'\s*'.join(re.escape(t) for t in b_txt.split()))
        if not any(bmask[m_.start()] and m_.start() >= ma.end() for m_ in rxb_.finditer(body)):
            try:
                mbf_, mp_ = _find_anchor_fuzzy(body[ma.end():], bmask[ma.end():], b_txt, 1)
                consistent = all(blk_renames.get(k_, v_) == v_ for k_, v_ in mp_.items())
                if consistent:
                    blk_renames.update(mp_)
                    b_txt = body[ma.end() + mbf_.start():ma.end() + mbf_.end()]
            except AnchorLost:
                pass
    if eager:
        header = src[it.start:it.body_start]
        hm = code_mask(header)
        deferred = any(hm[m_.start()] for m_ in re.finditer(r'\basync\s+(?:unsafe\s+)?fn\b', header))
        if not deferred:
            # inside an `async {}` / `async move {}` block that is still open at the start of the range?
            for m_ in re.finditer(r'\basync\s+(?:move\s+)?\{', body[:ma.start()]):
                if bmask[m_.start()]:
                    ob_ = m_.end() - 1
                    if match_brace(body, bmask, ob_) >= ma.start():
                        deferred = True
        if deferred:
            # the claim "these statements run when the function is called" is false whatever the rest of the range looks like:
            # a function of its own that states it (the other clauses of the block are not checked on this tree)
            unit.rule_log.append({'rule': 'EAGER', 'before': 'fn %s' % ' :: '.join(path), 'after': 'the range is deferred to the first poll of the returned future', 'where': rel})
            line0 = line_of(src, it.body_start + ma.start())
            text = 'fn %s() { let ghost vx_these_statements_run_when_the_function_is_called_not_when_its_future_is_first_polled = false; assert(vx_these_statements_run_when_the_function_is_called_not_when_its_future_is_first_polled); }' % name
            keep = [l_ for l_ in rest if l_.strip().split()[:1] == ['props']]
            emit_fn_text(unit, rel, path + ['block ' + name], name, text, line0, line0, keep, tmpl_where)
            return
    if blk_renames:
        def _brn(t):
            for a_, b_ in blk_renames.items():
                t = re.sub(r'(?<![\w.])%s\b' % re.escape(a_), b_, t)
            return t
        sig = _brn(sig)
        fall = _brn(fall)
        substs = [(_brn(q_[0]), _brn(q_[1])) + tuple(q_[2:]) for q_ in substs]
        rest = [_brn(l_) for l_ in rest]
        unit.rule_log.append({'rule': 'AID', 'before': 'block %s written for locals %s' % (name, ', '.join(sorted(blk_renames))), 'after': 'renamed to %s' % ', '.join(blk_renames[k] for k in sorted(blk_renames)), 'where': rel})
    if b_txt == '$':
        # up to the end of the function body
        endb = len(body.rstrip()) - 1
        mb = _Span0(endb)
        blk = body[ma.start():endb]
    elif b_txt == '{*}':
        # the statement that the start anchor opens: from the anchor to the brace that closes its block
        if body[ma.end() - 1] != '{':
            raise Unsupported('%s: `{*}` needs a start anchor that ends with an opening brace' % tmpl_where)
        cb_ = match_brace(body, bmask, ma.end() - 1)
        if re.match(r'if\b', body[ma.start():]):
            # an `if` statement includes its else branches
            cb_ = _if_chain_end(body, bmask, ma.start()) - 1
        mb = _Span0(cb_ + 1)
        blk = body[ma.start():cb_ + 1]
    elif b_txt.startswith('{<'):
        # inside the brace group the start anchor opens, up to (not including) the statement that starts with the given text
        if body[ma.end() - 1] != '{':
            raise Unsupported('%s: `{< ..` needs a start anchor that ends with an opening brace' % tmpl_where)
        cb_ = match_brace(body, bmask, ma.end() - 1)
        inner_txt = b_txt[2:].strip()
        rxb2 = re.compile(r'\s*'.join(re.escape(t) for t in inner_txt.split()))
        hit2 = next((m for m in rxb2.finditer(body) if bmask[m.start()] and ma.end() <= m.start() < cb_), None)
        if hit2 is None:
            try:
                mf_, mp_ = _find_anchor_fuzzy(body[ma.end():cb_], bmask[ma.end():cb_], inner_txt, 1)
                hit2 = _Span(ma.end() + mf_.start(), ma.end() + mf_.end())
            except AnchorLost:
                raise AnchorLost('block end anchor not found inside the group: `%s`' % inner_txt)
        mb = _Span(hit2.start(), hit2.start())
        ma = _Span(ma.end(), ma.end())
        blk = body[ma.start():hit2.start()]
    elif b_txt == '{}':
        # the range is everything inside the brace group that the start anchor opens (a match arm, an if body)
        if body[ma.end() - 1] != '{':
            raise Unsupported('%s: `{}` needs a start anchor that ends with an opening brace' % tmpl_where)
        cb_ = match_brace(body, bmask, ma.end() - 1)

        mb = _Span(cb_, cb_)
        ma = _Span(ma.end(), ma.end())
        blk = body[ma.start():cb_]
    else:
        hits_b = [m for m in re.compile(r'\s*'.join(re.escape(t) for t in b_txt.split())).finditer(body) if bmask[m.start()] and m.start() >= ma.end()]
        if not hits_b:
            raise AnchorLost('block end anchor not found: `%s`' % b_txt)
        mb = hits_b[0]
        if end_exclusive:
            mb = _Span0(mb.start())
        blk = body[ma.start():mb.end()]
    for recv_iter, elem_ty, spec_expr in iter_quants:
        blk = rule_R21_iter_quant(blk, recv_iter, elem_ty, spec_expr, unit, name, rel)
    for sub_ in substs:
        a, b = sub_[0], sub_[1]
        optional = len(sub_) > 2 and sub_[2]
        # whitespace-insensitive match of the text to rename; an awaited expression may be renamed to a
        # parameter that stands for its (arbitrary) result (R8)
        # `$1`..`$9` in the text to rename stand for one simple argument (no comma / parenthesis); they may be used
        # in the replacement
        def _tok(t):
            parts = re.split(r'(\$[1-9])', t)
            return ''.join(('(?P<w%s>(?:[^,();{}=]|\\((?:[^()]|\\([^()]*\\))*\\))+?)' % q[1]) if re.match(r'^\$[1-9]$', q) else re.escape(q) for q in parts)
        rx = re.compile(r'\s*'.join(_tok(t) for t in re.findall(r'\$[1-9]|\w+|[^\w\s]', a)))
        hits = list(rx.finditer(blk))
        if not hits and optional:
            continue
        if not hits:
            # nothing to rename: the block no longer mentions this expression (logged; the contract decides)
            unit.lost_aids.append({'fn': name, 'aid': 'renaming of `%s` (not present in the block any more)' % a})
            continue
        for h in reversed(hits):
            pad = '\n' * blk[h.start():h.end()].count('\n')
            b_ = re.sub(r'\$([1-9])', lambda m_: h.group('w' + m_.group(1)).strip(), b)
            blk = blk[:h.start()] + b_ + pad + blk[h.end():]
        unit.rule_log.append({'rule': 'R8' if 'await' in a else 'R9', 'before': norm_ws(a)[:100], 'after': b, 'where': '%s block %s' % (rel, name)})
    bm = code_mask(blk)
    code_only = ''.join(c if bm[k] else ' ' for k, c in enumerate(blk))
    if re.search(r'\.\s*await\b', code_only):
        # R8 (general form): an awaited expression the contract does not name stands for an arbitrary result of the
        # future's output type: `E.await` -> `E.vx_await()`; only the shim types of the prelude have such a method
        # (anything else leaves the subset at the verifier's front end)
        pieces = []
        last = 0
        for m_ in re.finditer(r'\.\s*await\b', blk):
            if bm[m_.start()]:
                pieces.append(blk[last:m_.start()])
                pieces.append('.vx_await()' + '\n' * blk[m_.start():m_.end()].count('\n'))
                last = m_.end()
        pieces.append(blk[last:])
        blk = ''.join(pieces)
        unit.rule_log.append({'rule': 'R8', 'before': '<expr>.await (not named by the contract)', 'after': '<expr>.vx_await(): arbitrary value of the output type', 'where': '%s block %s' % (rel, name)})
    line0 = line_of(src, it.body_start + ma.start())
    text = 'fn %s%s { %s\n%s }' % (name, sig, blk, fall)
    unit.rule_log.append({'rule': 'R9', 'before': 'statements `%s` .. `%s` of %s' % (a_txt[:40], b_txt[:40], ' :: '.join(path)),
                          'after': 'fn %s%s { <verbatim> %s }' % (name, sig, fall), 'where': rel})
    unit.block_substs = substs
    try:
        emit_fn_text(unit, rel, path + ['block ' + name], name, text, line0, line_of(src, it.body_start + mb.end()), rest, tmpl_where)
    finally:
        unit.block_substs = []


def emit_fn_text(unit, rel, path, fn_id, text, line0, end_line, dlines, tmpl_where):

    # ---- parse directive body
    props = list(unit.unit_props)
    ret = None
    vis = None
    selfmut = False
    trusted = False
    attrs = []
    sections = []   # (kind, key, [lines])
    cur = None
    for raw in dlines:
        s = raw.strip()
        if not s:
            continue
        is_header = re.match(r'^ ?\S', raw) is not None
        if not is_header:
            if cur is None:
                raise Unsupported('%s: stray contract line %r' % (tmpl_where, s))
            cur[2].append(raw.rstrip())
            continue
        head = s.split()[0]
        cur = None
        if head == 'props':
            props = s.split()[1].split(',')
        elif head == 'ret':
            ret = s.split()[1]
        elif head == 'vis':
            vis = s.split(None, 1)[1]
        elif head == 'selfmut':
            selfmut = True
        elif head == 'trusted':
            trusted = True
        elif head == 'attr':
            attrs.append(s[5:])
        elif head == 'annotate_closures':
            mm = re.match(r'annotate_closures\s+`(.*)`\s*->\s*`(.*)`\s*$', s)
            if not mm:
                raise Unsupported('%s: bad annotate_closures %r' % (tmpl_where, s))
            sections.append(['annotate_closures', (mm.group(1), mm.group(2)), []])
        elif head == 'desugar_q':
            mm = re.match(r'desugar_q\s+`(.*)`\s*$', s)
            if not mm:
                raise Unsupported('%s: bad desugar_q %r' % (tmpl_where, s))
            sections.append(['desugar_q', mm.group(1), []])
        elif head == 'tail_bind':
            mm = re.match(r'tail_bind\s+`(.*)`\s*$', s)
            if not mm:
                raise Unsupported('%s: bad tail_bind %r' % (tmpl_where, s))
            cur = ['tail_bind', mm.group(1), []]
            sections.append(cur)
        elif head in ('sigsub', 'sigsub?'):
            mm = re.match(r'sigsub\??\s+`(.*)`\s*=>\s*`(.*)`\s*$', s)
            if not mm:
                raise Unsupported('%s: bad sigsub %r' % (tmpl_where, s))
            sections.append(['sigsub', (mm.group(1), mm.group(2)), [], head.endswith('?')])
        elif head in ('requires', 'ensures', 'decreases', 'recommends', 'opens_invariants', 'no_unwind'):
            cur = [head, None, []]
            sections.append(cur)
            rest = s[len(head):].strip()
            if rest:
                cur[2].append('    ' + rest)
        elif head == 'loop':
            parts = s.split()
            cur = ['loop', int(parts[1]), []]
            sections.append(cur)
            if len(parts) >= 4 and parts[2] == 'iter':
                sections.append(['loopiter', (int(parts[1]), parts[3]), []])
        elif head in ('atend', 'atstart'):
            cur = [head, None, []]
            sections.append(cur)
        elif head in ('before', 'after'):
            mm = re.match(r'(before|after)\s+`(.*)`(?:\s+#(\d+))?\s*$', s)
            if not mm:
                raise Unsupported('%s: bad anchor directive %r' % (tmpl_where, s))
            cur = [mm.group(1), (mm.group(2), int(mm.group(3)) if mm.group(3) else 0), []]
            sections.append(cur)
        else:
            raise Unsupported('%s: unknown fn directive %r' % (tmpl_where, s))

    # A failing proof aid (unlabelled invariant / hint) or a failing safety site leaves every postcondition of
    # the function unproved (the verifier assumes the failed fact afterwards): such obligations carry the
    # union of the function's property tags; a labelled clause with explicit tags keeps exactly its own.
    fn_props = list(props)
    for sec in sections:
        for cl in (sec[2] if len(sec) > 2 and isinstance(sec[2], list) else []):
            mm_ = re.search(r'//#\s*([A-Z0-9,]+):[\w.\-]+\s*$', cl)
            if mm_:
                for q in mm_.group(1).split(','):
                    if q not in fn_props:
                        fn_props.append(q)
    props = fn_props

    # ---- rewrite
    ctx = '%s :: %s' % (rel, ' :: '.join(path))
    if trusted:
        # body is not given to the verifier at all (unsafe / cfg / intrinsics): keep the signature only
        se, hb = _find_fn_parts(text)
        if hb:
            nl = text[se:].count('\n')
            text = text[:se] + '{ unimplemented!() }' + '\n' * nl
        a0 = re.match(r'(\s*#\s*\[[^\]]*\]\s*|\s*///[^\n]*\n)*', text).end()
        text = _blank(text[:a0]) + text[a0:]
    else:
        text = rule_R24_inline(unit, rel, text, ctx)
    text = unit.rewrite(text, ctx)
    guard_renames = list(unit.last_guard_renames)
    if guard_renames:
        # the proof aids (hints, invariants and their anchors) name the elided guard: same renaming
        def _ren(t):
            for g_, place_ in guard_renames:
                t = re.sub(r'(?<![\w.])%s\b' % re.escape(g_), place_, t)
            return t
        for sec in sections:
            if sec[0] in ('loop', 'before', 'after', 'atstart', 'atend'):
                sec[2] = [_ren(l) for l in sec[2]]
                if sec[0] in ('before', 'after'):
                    sec[1] = (_ren(sec[1][0]), sec[1][1])
    for sec in sections:
        if sec[0] == 'desugar_q':
            # R12: `E?` -> match E { Ok(v) => v, Err(e) => return Err(From::from(e)) }  (definition of `?`)
            toks = [re.escape(t) for t in sec[1].split()]
            rx = re.compile(r'\s*'.join(toks) + r'\s*\?')
            tm = code_mask(text)
            hits = [m for m in rx.finditer(text) if tm[m.start()]]
            if not hits:
                # renamed locals (or an inlined helper): the expression with its local names as wildcards
                try:
                    m_, _mp = _find_anchor_fuzzy(text, tm, sec[1], 0)
                    k_ = m_.end()
                    while k_ < len(text) and text[k_].isspace():
                        k_ += 1
                    hits = [_Span(m_.start(), k_ + 1)] if text[k_:k_ + 1] == '?' else []
                    if hits:
                        hits = [type('H', (), {'start': (lambda self, a=m_.start(): a), 'end': (lambda self, b=k_ + 1: b), 'group': (lambda self, i, t=text[m_.start():k_ + 1]: t)})()]
                except AnchorLost:
                    hits = []
            if not hits:
                unit.lost_aids.append({'fn': fn_id, 'aid': 'desugaring of `%s?` (expression not present any more)' % sec[1]})
                continue
            for m in reversed(hits):
                new = '(match %s { Ok(vx_v) => vx_v, Err(vx_e) => return Err(core::convert::From::from(vx_e)) })' % text[m.start():m.end() - 1].strip()
                unit.rule_log.append({'rule': 'R12', 'before': norm_ws(m.group(0)), 'after': norm_ws(new)[:100], 'where': ctx})
                text = text[:m.start()] + new.replace('\n', ' ') + '\n' * m.group(0).count('\n') + text[m.end():]
    for sec in list(sections):
        if sec[0] == 'tail_bind':
            # the tail expression of the body `E` (from the anchor to the closing brace) becomes `let vx_tail = E; vx_tail`
            # so that proof aids can be placed between the call and the return (definition of a tail expression)
            tm = code_mask(text)
            toks = [re.escape(t) for t in sec[1].split()]
            hits = [m for m in re.compile(r'\s*'.join(toks)).finditer(text) if tm[m.start()]]
            if not hits:
                unit.lost_aids.append({'fn': fn_id, 'aid': 'tail binding of `%s` (expression not present any more)' % sec[1]})
                sections.remove(sec)
                continue
            a_ = hits[-1].start()
            e_ = len(text.rstrip()) - 1
            expr = text[a_:e_].rstrip()
            if ';' in ''.join(c if tm[a_ + k] else ' ' for k, c in enumerate(expr)) and not expr.rstrip().endswith(')'):
                raise Unsupported('%s: tail_bind anchor is not the tail expression' % fn_id)
            text = text[:a_] + 'let vx_tail = ' + expr + ';\n vx_tail\n' + text[e_:]
            unit.rule_log.append({'rule': 'TAIL', 'before': norm_ws(expr)[:80], 'after': 'let vx_tail = <expr>; vx_tail', 'where': ctx})
            sections[sections.index(sec)] = ['before', ('vx_tail', 2), sec[2]]
    for sec in sections:
        if sec[0] == 'annotate_closures':
            # R16: `|x| EXPR` (single-expression closure argument) -> `|x: T| -> (vx_r: U) ensures vx_r == (EXPR) { EXPR }`
            # the closure is unchanged; the annotation states its result so that callers can use it
            tin, tout = sec[1]
            pos = 0
            while True:
                tm = code_mask(text)
                mm = next((m for m in re.finditer(r'\|\s*([A-Za-z_]\w*)\s*\|\s*', text) if m.start() >= pos and tm[m.start()]), None)
                if not mm:
                    break
                j = mm.end()
                depth = 0
                while j < len(text):
                    if tm[j]:
                        c = text[j]
                        if c in '([{':
                            depth += 1
                        elif c in ')]}':
                            if depth == 0:
                                break
                            depth -= 1
                        elif c == ',' and depth == 0:
                            break
                    j += 1
                expr = text[mm.end():j].strip()
                if expr.startswith('{') or '->' in text[mm.start():mm.end()]:
                    pos = mm.end()
                    continue
                new = '|%s: %s| -> (vx_r: %s) ensures vx_r == (%s) { %s }' % (mm.group(1), tin, tout, norm_ws(expr), expr)
                unit.rule_log.append({'rule': 'R16', 'before': norm_ws(text[mm.start():j])[:80], 'after': norm_ws(new)[:100], 'where': ctx})
                text = text[:mm.start()] + new + text[j:]
                pos = mm.start() + len(new)
    sig_end, has_body = _find_fn_parts(text)
    sig = text[:sig_end]
    body = text[sig_end:]
    log = []
    if selfmut:
        sig = rule_selfmut(sig, log)
    # R37: `fn f(mut self, ..) { B }` -> `fn f(self, ..) { let mut vx_self = self; B[self := vx_self] }`
    # (a `mut` binding of a by-value parameter is a local variable initialised with the argument)
    if has_body and re.search(r'\(\s*mut\s+self\s*[,)]', sig):
        sig = re.sub(r'\(\s*mut\s+self(\s*[,)])', r'(self\1', sig, count=1)
        bm = code_mask(body)
        pieces = []
        last = 0
        for m_ in re.finditer(r'(?<![\w])self\b', body):
            if bm[m_.start()]:
                pieces.append(body[last:m_.start()])
                pieces.append('vx_self')
                last = m_.end()
        pieces.append(body[last:])
        body = ''.join(pieces)
        body = body[:1] + ' let mut vx_self = self;' + body[1:]
        log.append(('R37', 'mut self', 'self; let mut vx_self = self;'))
    for sec in sections:
        if sec[0] == 'sigsub':
            a, b = sec[1]
            if a not in sig:
                if len(sec) > 3 and sec[3]:
                    continue
                raise AnchorLost('%s: signature text `%s` not found' % (fn_id, a))
            sig = sig.replace(a, b)
            log.append(('SIG', a, b))
    if re.search(r'[(,]\s*_\s*:', sig):
        sig2 = re.sub(r'([(,]\s*)_(\s*:)', r'\1_vx_unused\2', sig)
        log.append(('SIG', 'unnamed parameter `_`', '_vx_unused'))
        sig = sig2
    if ret:
        sig = _name_return(sig, ret)
    if vis:
        mm = re.search(r'\b(const\s+|unsafe\s+|async\s+)*fn\b', sig)
        sig = sig[:mm.start()] + vis + ' ' + sig[mm.start():]
    for r in log:
        unit.rule_log.append({'rule': r[0], 'before': r[1], 'after': r[2], 'where': ctx})

    unit.fns[fn_id] = {'file': rel, 'path': ' :: '.join(path), 'line': line0,
                       'end_line': end_line, 'props': props, 'trusted': trusted,
                       'tmpl': tmpl_where, 'has_body': has_body}
    if trusted:
        unit.trusted.append('%s: body of %s (%s) not verified (external_body)' % (tmpl_where, fn_id, rel))

    def repo_origin(off_in_text):
        return {'k': 'repo', 'file': rel, 'line': line0 + text.count('\n', 0, off_in_text), 'fn': fn_id}

    def emit_clause_lines(section, lines_, key=None):
        # a clause may span several lines; its `//#label` sits on the last one: give it to all of them
        group_label = {}
        start = 0
        depth_ = 0
        for k, cl in enumerate(lines_):
            code, label, cprops = _split_label(cl, props)
            depth_ += sum(code.count(c) for c in '([{') - sum(code.count(c) for c in ')]}')
            if depth_ > 0 and label is None:
                continue
            if label is not None or code.rstrip().endswith(',') or code.rstrip().endswith(';') or code.strip() in ('invariant', 'invariant_except_break', 'ensures', 'decreases', 'requires', '}'):
                for j in range(start, k + 1):
                    group_label[j] = (label, cprops) if label is not None else None
                start = k + 1
        first_of_group = set()
        seen = set()
        for idx_, cl in enumerate(lines_):
            code, label, cprops = _split_label(cl, props)
            g = group_label.get(idx_)
            if label is None and g is not None:
                label, cprops = g
            st = code.strip()
            is_kw = st in ('invariant', 'invariant_except_break', 'ensures', 'decreases', 'requires', 'proof {', '}', '') or st.startswith('//')
            sect = section
            org = {'k': 'clause', 'fn': fn_id, 'section': sect, 'label': label, 'props': cprops,
                   'text': norm_ws(st), 'tmpl': tmpl_where, 'kw': is_kw, 'key': key}
            unit.emit(code + '\n', org)
            if not is_kw and not (label is not None and (section, label) in seen):
                unit.clauses.append(org)
            if label is not None:
                seen.add((section, label))

    for a in attrs:
        unit.emit(a + '\n', {'k': 'tmpl', 'line': 0, 'file': tmpl_where})
    if trusted:
        unit.emit('#[verifier::external_body]\n', {'k': 'tmpl', 'line': 0, 'file': tmpl_where})
    elif has_body:
        # termination is claimed only where the contract gives a `decreases`; a loop that carries none
        # (e.g. one that a change has just introduced) must not stop the verifier
        unit.emit('#[verifier::exec_allows_no_decreases_clause]\n', {'k': 'tmpl', 'line': 0, 'file': tmpl_where})
    unit.emit(sig.rstrip() + '\n', repo_origin(0))
    for sec in sections:
        if sec[0] in ('requires', 'ensures', 'decreases', 'recommends', 'opens_invariants', 'no_unwind'):
            unit.emit('    ' + sec[0] + '\n', {'k': 'clause', 'fn': fn_id, 'section': sec[0], 'label': None,
                                                'props': props, 'text': sec[0], 'tmpl': tmpl_where, 'kw': True, 'key': None})
            emit_clause_lines(sec[0], sec[2])
    if not has_body:
        unit.emit(';\n', repo_origin(sig_end))
        return

    # ---- body insertions
    bmask = code_mask(body)
    inserts = []   # (offset_in_body, section, lines, key)
    loops = None
    # renamed locals: an anchor that is no longer found literally is looked for with its local-variable-like
    # identifiers as wildcards; the renaming it reveals is applied to every proof aid of the function
    renames = {}
    for sec in sections:
        if sec[0] in ('before', 'after'):
            try:
                _find_anchor(body, bmask, sec[1][0], sec[1][1])
            except AnchorLost:
                try:
                    _m, mp = _find_anchor_fuzzy(body, bmask, sec[1][0], sec[1][1])
                except AnchorLost:
                    continue
                # a place that another aid of the same function names literally is that aid's place, not this one's
                taken = False
                for other in sections:
                    if other is not sec and other[0] in ('before', 'after'):
                        try:
                            mo = _find_anchor(body, bmask, other[1][0], other[1][1])
                        except AnchorLost:
                            continue
                        if mo.start() < _m.end() and _m.start() < mo.end():
                            taken = True
                            break
                if taken:
                    continue
                # the hint that hangs on this anchor speaks about the anchor's own variables
                for a_, b_ in mp.items():
                    sec[2] = [re.sub(r'(?<![\w.])%s\b' % re.escape(a_), b_, l) for l in sec[2]]
                sec[1] = (_m.group(0), 0) if False else (sec[1][0], sec[1][1])
                sec.append(('fuzzy', _m.start(), _m.end()))
                for a_, b_ in mp.items():
                    if renames.get(a_, b_) != b_:
                        renames = None
                        break
                    renames[a_] = b_
                if renames is None:
                    renames = {}
                    break
    if renames:
        # only names that are gone from the body are renamed (a name still in use keeps its meaning)
        renames = dict((a_, b_) for a_, b_ in renames.items() if not any(bmask[m_.start()] for m_ in re.finditer(r'(?<![\w.])%s\b' % re.escape(a_), body)))
    if renames:
        def _rn(t):
            for a_, b_ in renames.items():
                t = re.sub(r'(?<![\w.])%s\b' % re.escape(a_), b_, t)
            return t
        for sec in sections:
            if sec[0] in ('loop', 'before', 'after', 'atstart', 'atend'):
                sec[2] = [_rn(l) for l in sec[2]]
                if sec[0] in ('before', 'after'):
                    sec[1] = (_rn(sec[1][0]), sec[1][1])
        unit.rule_log.append({'rule': 'AID', 'before': 'proof aids written for locals %s' % ', '.join(sorted(renames)), 'after': 'renamed to %s' % ', '.join(renames[k] for k in sorted(renames)), 'where': ctx})
    # a local that the proof aids name but that the function no longer binds (the compiler's own suggestion, e.g. `queues` ->
    # `self.queues` once `let mut queues = self.queues.borrow_mut()` is gone): the aids - never the clauses - are rewritten
    for a_, b_ in sorted((getattr(unit, 'aid_renames', None) or {}).items()):
        if re.search(r'(?:\blet\s+(?:mut\s+)?|[(,|]\s*(?:mut\s+)?)%s\b' % re.escape(a_), sig + body):
            continue
        hit_ = False
        for sec in sections:
            if sec[0] in ('loop', 'before', 'after', 'atstart', 'atend'):
                new_ = [re.sub(r'(?<![\w.])%s\b' % re.escape(a_), b_, l) for l in sec[2]]
                if new_ != sec[2]:
                    sec[2] = new_
                    hit_ = True
        if hit_:
            unit.rule_log.append({'rule': 'AID', 'before': 'proof aids written for the local `%s`' % a_, 'after': 'read `%s` (the function no longer binds it)' % b_, 'where': ctx})
    drop_aids_ = getattr(unit, 'drop_aids', None) or ()
    for sec in sections:
        kind = sec[0]
        if drop_aids_ and kind in ('loop', 'before', 'after', 'atstart', 'atend'):
            key_ = ('loop%d' % sec[1]) if kind == 'loop' else ('start' if kind == 'atstart' else ('end' if kind == 'atend' else sec[1][0]))
            if (fn_id, key_) in drop_aids_:
                unit.lost_aids.append({'fn': fn_id, 'aid': 'aid `%s` left out (it no longer holds on this tree)' % key_})
                continue
        if kind == 'loop':
            if loops is None:
                loops = _loop_headers(body, bmask)
            # Proof aids (loop invariants, hints) whose place in the body no longer exists are left out and the
            # function is verified without them: they are never part of what is claimed, only of how it is proved.
            if sec[1] >= len(loops):
                unit.lost_aids.append({'fn': fn_id, 'aid': 'invariants of loop %d (function has %d loops)' % (sec[1], len(loops))})
                continue
            inserts.append((loops[sec[1]][1], 'invariant', sec[2], 'loop%d' % sec[1]))
        elif kind in ('before', 'after'):
            fz = next((x for x in sec[3:] if isinstance(x, tuple) and x and x[0] == 'fuzzy'), None)
            try:
                if fz is not None:
                    mm = _Span(fz[1], fz[2])
                else:
                    mm = _find_anchor(body, bmask, sec[1][0], sec[1][1])
            except AnchorLost as e:
                unit.lost_aids.append({'fn': fn_id, 'aid': 'hint %s `%s`%s' % (kind, sec[1][0], (' #%d' % sec[1][1]) if sec[1][1] else '')})
                continue
            pos_ = mm.start() if kind == 'before' else mm.end()
            if kind == 'before':
                # an anchor that has become the operand of `return` (a tail expression turned into an early exit): the aid
                # goes before the `return` statement, not between the keyword and its operand
                mr_ = re.search(r'\breturn\s*$', body[:pos_])
                if mr_ and bmask[mr_.start()]:
                    pos_ = mr_.start()
            if getattr(unit, 'late_hints', False) and _pure_hint(sec[2]):
                # second attempt of the driver: a hint that only calls lemmas / asserts facts is placed before the last
                # statement or tail expression of its block instead (tolerates reordered independent statements)
                pos_ = _end_of_block_pos(body, bmask, pos_)
            inserts.append((pos_, 'hint', sec[2], sec[1][0]))
        elif kind == 'atstart':
            inserts.append((1, 'hint', sec[2], 'start'))
        elif kind == 'atend':
            inserts.append((len(body.rstrip()) - 1, 'hint', sec[2], 'end'))
    # an aid that uses a ghost variable declared by an aid that has no place any more is left out as well
    lost_names = set()
    for sec in sections:
        if sec[0] in ('loop', 'before', 'after', 'atstart', 'atend') and not any(ins[2] is sec[2] for ins in inserts):
            for l_ in sec[2]:
                lost_names.update(re.findall(r'\blet\s+ghost\s+(?:mut\s+)?([A-Za-z_]\w*)', l_))
    changed = bool(lost_names)
    while changed:
        changed = False
        for ins in list(inserts):
            if ins[1] not in ('hint', 'invariant'):
                continue
            txt = '\n'.join(ins[2])
            if any(re.search(r'(?<![\w.])%s\b' % re.escape(nm), txt) for nm in lost_names):
                inserts.remove(ins)
                unit.lost_aids.append({'fn': fn_id, 'aid': 'aid at `%s` (uses a ghost variable of an aid that has no place)' % ins[3]})
                new_names = set(re.findall(r'\blet\s+ghost\s+(?:mut\s+)?([A-Za-z_]\w*)', txt)) - lost_names
                if new_names:
                    lost_names |= new_names
                changed = True
    # a proof aid that UPDATES ghost state (`proof { queues.permits = queues.permits + 1; }`) and has lost its place: the clauses
    # that speak about that ghost state are no longer tied to the code (they would hold trivially), so the function is undecided
    for sec in sections:
        if sec[0] in ('loop', 'before', 'after', 'atstart', 'atend') and not any(ins[2] is sec[2] for ins in inserts):
            for l_ in sec[2]:
                if re.search(r'(?:\{|;)\s*(?!let\b|assert\b|reveal\b|if\b|lemma_)[A-Za-z_][\w.]*\s*=\s*[^=]', l_) and 'proof' in l_:
                    unit.lost_ghost_updates.append({'fn': fn_id, 'aid': norm_ws(l_)[:120]})
                    break
    for sec in sections:
        if sec[0] == 'loopiter':
            # Verus syntax for naming the ghost iterator of a for loop: `for x in it: expr`
            if loops is None or sec[1][0] >= len(loops):
                raise AnchorLost('%s: for-loop %d not found' % (fn_id, sec[1][0]))
            kw = loops[sec[1][0]][0]
            mm = re.compile(r'\bin\s').search(body, kw)
            if not mm or mm.start() > loops[sec[1][0]][1]:
                raise AnchorLost('%s: for-loop header not found for iter name' % fn_id)
            inserts.append((mm.end(), 'tmplraw', ['%s: ' % sec[1][1]], 'iter'))
    inserts.sort(key=lambda t: t[0])
    pos = 0
    if unit.probe and not trusted:
        unit.emit(body[:1], repo_origin(sig_end))
        unit.emit(' proof { assert(false); } ', {'k': 'probe', 'fn': fn_id})
        pos = 1
    for off, section, lines_, key in inserts:
        unit.emit(body[pos:off], repo_origin(sig_end + pos))
        if section == 'tmplraw':
            unit.emit(lines_[0], {'k': 'tmpl', 'line': 0, 'file': tmpl_where})
            pos = off
            continue
        unit.emit('\n', {'k': 'tmpl', 'line': 0, 'file': tmpl_where})
        emit_clause_lines(section, lines_, key)
        pos = off
    unit.emit(body[pos:] + '\n', repo_origin(sig_end + pos))


def build_unit(name, repo, contracts_dir, prelude_dir):
    unit = Unit(name, repo)
    process_template(unit, os.path.join(contracts_dir, name + '.vrs'), prelude_dir)
    data = unit.finish()
    return unit, data


if __name__ == '__main__':
    import sys
    u, data = build_unit(sys.argv[1], sys.argv[2], os.path.join(os.path.dirname(__file__), '..', 'contracts'),
                         os.path.join(os.path.dirname(__file__), 'prelude'))
    sys.stdout.write(data.decode())

"""verdict + evidence + replay files"""
import os
import re
import json
import hashlib
import time

HERE = os.path.dirname(os.path.abspath(__file__))
ROOT = os.path.dirname(HERE)
# evidence and replay files of self-test runs (thorough tier, seeded changes) go elsewhere
OUT = os.environ.get('VERIF_OUT') or ROOT


def _sha(s):
    return hashlib.sha256(s.encode()).hexdigest()[:12]


def write_replay(prop, failure, unit_run, witness):
    d = os.path.join(OUT, 'replay', prop)
    os.makedirs(d, exist_ok=True)
    p = os.path.join(d, _sha(failure['id']) + '.json')
    rec = {
        'property': prop,
        'failed_obligation': failure['id'],
        'kind': failure['kind'],
        'verifier': {'kani': 'kani (cbmc)', 'bounded': 'exhaustive enumeration over the stated bound (bounded stand-in, not the deductive verifier)'}.get(failure.get('kind'), 'verus'),
        'verifier_message': failure['message'],
        'verifier_output': failure['rendered'],
        'repo_location': failure.get('repo'),
        'repo_function': failure.get('repo_fn'),
        'repo_file': failure.get('repo_file'),
        'unit': unit_run.name,
        'proof_aids_without_a_place': [a for a in getattr(getattr(unit_run, 'unit', None), 'lost_aids', []) if a['fn'] == failure.get('fn')],
        'counterexample': witness if witness else None,
        'note': ('concrete failing input found by the witness search and replayed on the real code' if witness and witness.get('failed')
                 else 'Verus gives no counterexample; no-failing-input-found'),
    }
    with open(p, 'w') as fh:
        json.dump(rec, fh, indent=1)
    return p


_ANCHORS = {}


def anchor_files(prop):
    if not _ANCHORS:
        try:
            with open(os.path.join(ROOT, 'properties.jsonl')) as fh:
                for ln in fh:
                    ln = ln.strip()
                    if ln:
                        d = json.loads(ln)
                        _ANCHORS[d['id']] = set((d.get('anchors') or {}).get('files') or [])
        except (OSError, ValueError):
            pass
    return _ANCHORS.get(prop, set())


def decide_and_report(prop, tier, seed, runs, undecided, known, index, wall, extra=None):
    extra = extra or {}
    pinfo = index['properties'][prop]
    obligations = []
    failures = []
    trusted = []
    fns = []
    rules = {}
    rule_samples = []
    solver_ms = 0
    backends = {'verus(z3)': 0}
    probes = {}
    checker_cmds = []
    for r in runs:
        for o in r.obligations:
            if prop in o['props']:
                obligations.append(o)
        for f in r.failures:
            if prop in f['props']:
                failures.append((f, r))
            elif f.get('repo_file') and f.get('repo_file') in anchor_files(prop) and not any(k.get('obligation') == f['id'] for k in known.get('findings', [])):
                # an obligation that has just broken in a file the property is anchored in (properties.jsonl), inside a unit
                # registered for the property, is reported under the property although its clause is tagged for a neighbour
                # (rounds 8-11 of the seeded changes: the commonest miss was a clause that failed under the wrong tag);
                # obligations that are known findings of another property keep to that property
                failures.append((dict(f, props=list(f['props']) + [prop], widened=True), r))
        for lg in getattr(r.unit, 'lost_ghost_updates', []) or []:
            fprops = (r.unit.fns.get(lg['fn']) or {}).get('props') or []
            cprops = set(q for c in r.unit.clauses if c.get('fn') == lg['fn'] for q in (c.get('props') or []))
            if prop in fprops or prop in cprops:
                undecided.append('%s: a proof aid of %s that updates ghost state has no place on this tree (%s): its clauses are no longer tied to the code' % (r.name, lg['fn'], lg['aid']))
        for sb in getattr(r.unit, 'skipped_blocks', []) or []:
            if prop in sb['props'] or not sb['props']:
                undecided.append('%s: block %s %s and was left out' % (r.name, sb['block'], ('is not found on this tree (%s)' % sb['why']) if sb.get('why') else 'does not compile on this tree (a name its signature returns or renames is gone)'))
        if r.frontend_errors:
            undecided.append('%s: verifier front-end error (code left the supported subset?):\n%s' % (r.name, r.frontend_errors[0]))
        if r.resource_errors:
            undecided.append('%s: resource limit: %s' % (r.name, r.resource_errors[0]))
        if r.probe and r.probe['vacuous']:
            undecided.append('%s: vacuity probe verified assert(false) in: %s' % (r.name, ', '.join(r.probe['vacuous'])))
        for t in r.unit.trusted:
            trusted.append('%s: %s' % (r.name, t))
        for fid, f in r.unit.fns.items():
            if prop in f['props'] or any(prop in c['props'] for c in r.unit.clauses if c['fn'] == fid):
                fns.append({'unit': r.name, 'fn': fid, 'repo': '%s:%d-%d' % (f['file'], f['line'], f['end_line']),
                            'verified_body': bool(f['has_body'] and not f['trusted'])})
        for rl in r.unit.rule_log:
            rules[rl['rule']] = rules.get(rl['rule'], 0) + 1
            if len(rule_samples) < 12:
                rule_samples.append(rl)
        solver_ms += (r.verus['summary'].get('smt_ms') or 0)
        probes[r.name] = r.probe
        checker_cmds.append('verus --edition 2024 --multiple-errors 100 <extracted %s.rs> (%d items verified, %d errors, %.1fs%s)' % (
            r.name, r.verus['summary'].get('verified', 0), r.verus['summary'].get('errors', 0), r.verus['wall_s'],
            ', cached result for identical extracted text' if r.verus.get('cached') else ''))

    kani = extra.get('kani')
    if kani:
        for h in kani['harnesses']:
            if prop in h['props']:
                obligations.append({'id': h['id'], 'props': h['props'], 'kind': 'kani', 'fn': h.get('fn')})
                if h['status'] == 'FAILURE':
                    failures.append(({'id': h['id'], 'props': h['props'], 'kind': 'kani', 'message': 'Kani harness failed',
                                      'rendered': h.get('output', ''), 'repo': h.get('repo'), 'fn': h.get('fn'),
                                      'repo_fn': h.get('fn'), 'repo_file': h.get('file'), 'witness': h.get('witness')}, kani['run']))
                elif h['status'] != 'SUCCESS':
                    undecided.append('kani harness %s: %s' % (h['id'], h['status']))
        backends['kani(cbmc)'] = len([h for h in kani['harnesses'] if prop in h['props']])
        checker_cmds.append(kani['cmd'])
        trusted.extend(kani.get('trusted', []))
        solver_ms += int(kani.get('solver_s', 0) * 1000)

    # bounded stand-ins: never counted among the proof obligations; a mismatch is a violation with its failing input
    bnd = extra.get('bounded')
    bounded_checks = []
    if bnd:
        c = bnd['check']
        if prop in c['props']:
            bounded_checks.append({'id': c['id'], 'bound': c['bound'], 'cases': c['cases'], 'accepted_by_the_parser': c['accepted'], 'status': c['status'], 'labelled': 'bounded: not a proof'})
            if c['status'] == 'FAILURE':
                failures.append(({'id': c['id'], 'props': c['props'], 'kind': 'bounded', 'message': 'bounded check found a failing input',
                                  'rendered': c.get('output', ''), 'repo': c.get('repo'), 'fn': c.get('fn'), 'repo_fn': c.get('fn'),
                                  'repo_file': c.get('file'), 'witness': c.get('witness')}, bnd['run']))
            elif c['status'] != 'SUCCESS':
                undecided.append('bounded check %s: %s: %s' % (c['id'], c['status'], c.get('output', '')[-400:]))
            backends['exhaustive enumeration (bounded, not counted as proof)'] = 1
            checker_cmds.append(bnd['cmd'])
            trusted.extend(bnd.get('trusted', []))

    # baseline: obligations that existed when the contracts were committed must still be generated
    bpath = os.path.join(ROOT, 'baseline_obligations.json')
    missing = []
    if os.path.exists(bpath) and not undecided:
        with open(bpath) as fh:
            base = json.load(fh)
        cur = set(o['id'] for o in obligations)
        missing = [b for b in base.get(prop, []) if b not in cur]
        if missing:
            undecided.append('obligations of the committed baseline are no longer generated: %s' % ', '.join(missing[:5]))

    known_ids = {}
    for k in known.get('findings', []):
        if k['property'] == prop:
            known_ids[k['obligation']] = k
    failed_ids = {}
    failed_sites = {}
    for f, r in failures:
        failed_ids.setdefault(f['id'], (f, r))
        failed_sites.setdefault(f['id'], [])
        if f.get('site') not in [x[0].get('site') for x in failed_sites[f['id']]]:
            failed_sites[f['id']].append((f, r))

    violations = []
    known_hits = []
    for fid, (f, r) in sorted(failed_ids.items()):
        if fid in known_ids:
            k = known_ids[fid]
            # a finding that names its sites covers the clause failing *there*; the same clause failing at another exit or
            # call site of the function is a different violation and is reported
            other = [(f2, r2) for (f2, r2) in failed_sites[fid] if k.get('sites') and f2.get('site') not in k['sites']]
            if len(other) < len(failed_sites[fid]) or not k.get('sites'):
                known_hits.append(k)
            for f2, r2 in other:
                violations.append((dict(f2, id=f2['id'] + ' @ ' + (f2.get('site') or '?')), r2))
        else:
            violations.append((f, r))

    # an obligation group fails if a specific failure belongs to it
    def failed_group(o):
        if o['id'] in failed_ids:
            return True
        if o['kind'] == 'safety':
            for fid, (f, r) in failed_ids.items():
                if f.get('fn') == o['fn'] and f['kind'] in ('arith', 'pre', 'unreachable', 'other') and fid.startswith(o['id'].rsplit('/', 1)[0] + '/'):
                    return True
        if o['kind'] == 'lemma':
            for fid, (f, r) in failed_ids.items():
                if f.get('fn') == o['fn']:
                    return True
        if o['kind'] == 'invariant':
            for fid in failed_ids:
                if fid.replace('/invariant-entry/', '/invariant/').replace('/invariant-preserved/', '/invariant/') == o['id']:
                    return True
        return False

    failed_obs = [o for o in obligations if failed_group(o)]
    known_failed_obs = []
    for o in failed_obs:
        # group counted as "known" only if all its specific failures are known findings
        specific = [fid for fid, (f, r) in failed_ids.items() if f.get('fn') == o['fn']]
        if specific and all(s in known_ids for s in specific):
            known_failed_obs.append(o)
    claimed = [o for o in obligations if o not in known_failed_obs]
    discharged = [o for o in claimed if o not in failed_obs]

    by_kind = {}
    for o in claimed:
        by_kind[o['kind']] = by_kind.get(o['kind'], 0) + 1
    backends['verus(z3)'] = len([o for o in claimed if o['kind'] not in ('kani', 'guard')])
    if any(o['kind'] == 'guard' for o in claimed):
        backends['text check of the extractor (guard_hazards: RefCell guard in a scrutinee alive across .await)'] = len([o for o in claimed if o['kind'] == 'guard'])

    status = 0
    lines = []
    for k in known_hits:
        lines.append('KNOWN-FINDING: property=%s %s' % (prop, k['what']))
    replays = []
    if undecided and not violations:
        status = 2
    for f, r in violations:
        witness = f.get('witness')
        if witness is None and extra.get('witness_search'):
            witness = extra['witness_search'](prop, f)
        rp = write_replay(prop, f, r, witness)
        replays.append(rp)
        tail = '' if (witness and witness.get('failed')) else ' no-failing-input-found'
        lines.append('VIOLATION property=%s replay=%s obligation=%s%s' % (prop, rp, f['id'].replace(' ', '_'), tail)
                     if False else 'VIOLATION property=%s replay=%s%s' % (prop, rp, tail))
        sys_stderr('  failed obligation: %s%s\n  %s\n' % (f['id'], ' (seen once the proof aid that no longer holds is left out)' if f.get('without_aid') else '', (f.get('repo') or '')))
        status = 1

    samples = []
    for o in discharged[:6]:
        samples.append({'obligation': o['id'], 'status': 'discharged'})
    for f, r in violations[:4]:
        samples.append({'obligation': f['id'], 'status': 'FAILED', 'repo': f.get('repo')})

    ev = {
        'property_id': prop,
        'tier': tier if tier in ('quick', 'thorough') else 'quick',
        'seed': seed,
        'level': 'proof',
        'coverage': {
            'obligations': len(claimed),
            'discharged': len(discharged),
            'checker_cmd': ' ; '.join(checker_cmds) if checker_cmds else 'none (undecided before the verifier ran)',
            'trusted_base': sorted(set(trusted)) + pinfo.get('trusted_base', []),
            'samples': samples,
            'obligation_kinds': by_kind,
            'obligation_counting_rule': 'one per labelled ensures/invariant/decreases clause and per proof-hint assert of a function under contract, one per lemma, one "safety" obligation per verified function body (all of its arithmetic / index / unwrap / callee-precondition sites together), one per Kani harness',
            'functions_under_contract': fns,
            'back_ends': backends,
            'solver_time_ms': solver_ms,
            'rewrite_rules_applied': rules,
            'rewrite_rule_samples': rule_samples,
            'extraction_drops': 'attributes other than derive(Copy,Clone,PartialEq,Eq), log::*! statements (R1), visibility qualifiers (R2), bodies of foreign-crate items (shims)',
            'vacuity_probe': probes,
            'known_findings_not_counted': [k['obligation'] for k in known_hits],
            'known_finding_obligation_groups': [o['id'] for o in known_failed_obs],
            'bounded_parts': (pinfo.get('bounded', []) if isinstance(pinfo.get('bounded'), list) else []) + (kani.get('bounded', []) if kani else []),
            'bounded_checks': bounded_checks,
            'undecided': undecided,
            'proof_aids_without_a_place': [dict(a, unit=r.name) for r in runs for a in r.unit.lost_aids],
            'units': [r.name for r in runs],
            'explanation': pinfo.get('covers', ''),
        },
        'assumptions': pinfo.get('assumptions', []),
        'wall_s': round(wall, 2),
        'violations': len(violations),
    }
    if extra.get('thorough'):
        ev['coverage']['thorough'] = extra['thorough']
    os.makedirs(os.path.join(OUT, 'evidence'), exist_ok=True)
    with open(os.path.join(OUT, 'evidence', prop + '.json'), 'w') as fh:
        json.dump(ev, fh, indent=1)
    for ln in lines:
        print(ln)
    if status == 2:
        for u in undecided:
            sys_stderr('UNDECIDED property=%s: %s\n' % (prop, u))
    if status == 0:
        print('OK property=%s obligations=%d discharged=%d known_findings=%d wall=%.1fs' % (prop, len(claimed), len(discharged), len(known_hits), wall))
    return status


def sys_stderr(s):
    import sys
    sys.stderr.write(s)

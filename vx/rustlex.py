"""Minimal Rust lexical helpers: code mask (comments / strings / chars masked),
brace matching, item location by path.  No external dependencies.

The functions here never evaluate or rewrite code; they only find byte ranges
of items in a source file so that the extractor can copy them verbatim.
"""
import re


class AnchorLost(Exception):
    """An item / loop / statement anchor was not found (=> undecided, exit 2)."""


def code_mask(src):
    """Return a list m with m[i] == True iff src[i] is code (not inside a
    comment, string literal or char literal)."""
    n = len(src)
    m = [True] * n
    i = 0
    while i < n:
        c = src[i]
        if c == '/' and i + 1 < n and src[i + 1] == '/':
            j = src.find('\n', i)
            if j < 0:
                j = n
            for k in range(i, j):
                m[k] = False
            i = j
        elif c == '/' and i + 1 < n and src[i + 1] == '*':
            depth = 1
            j = i + 2
            while j < n and depth > 0:
                if src.startswith('/*', j):
                    depth += 1
                    j += 2
                elif src.startswith('*/', j):
                    depth -= 1
                    j += 2
                else:
                    j += 1
            for k in range(i, j):
                m[k] = False
            i = j
        elif c == '"' or (c in 'br' and _raw_or_byte_string_start(src, i)):
            j = _skip_string(src, i)
            for k in range(i, j):
                m[k] = False
            i = j
        elif c == "'":
            # char literal or lifetime
            j = _char_literal_end(src, i)
            if j is None:
                i += 1
            else:
                for k in range(i, j):
                    m[k] = False
                i = j
        else:
            i += 1
    return m


def _raw_or_byte_string_start(src, i):
    if i > 0 and (src[i - 1].isalnum() or src[i - 1] == '_'):
        return False
    mm = re.match(r'(b?r#*"|b")', src[i:i + 12])
    return mm is not None


def _skip_string(src, i):
    n = len(src)
    mm = re.match(r'(b?)(r?)(#*)"', src[i:i + 12])
    raw = mm.group(2) == 'r'
    hashes = mm.group(3)
    j = i + mm.end()
    if raw:
        end = '"' + hashes
        k = src.find(end, j)
        return n if k < 0 else k + len(end)
    while j < n:
        if src[j] == '\\':
            j += 2
        elif src[j] == '"':
            return j + 1
        else:
            j += 1
    return n


def _char_literal_end(src, i):
    # 'x'  '\n'  '\u{1F}'  '\''   vs lifetime 'a
    n = len(src)
    if i + 1 >= n:
        return None
    if src[i + 1] == '\\':
        j = src.find("'", i + 3)
        if j < 0 or j - i > 12:
            return None
        return j + 1
    if i + 2 < n and src[i + 2] == "'":
        return i + 3
    # multibyte char e.g. 'é' is still one python char => handled above
    return None


def match_brace(src, mask, i):
    """src[i] is an opening bracket in code; return index of its match."""
    open_c = src[i]
    close_c = {'{': '}', '(': ')', '[': ']'}[open_c]
    depth = 0
    n = len(src)
    j = i
    while j < n:
        if mask[j]:
            if src[j] == open_c:
                depth += 1
            elif src[j] == close_c:
                depth -= 1
                if depth == 0:
                    return j
        j += 1
    raise AnchorLost('unbalanced %s at offset %d' % (open_c, i))


_VIS = re.compile(r'^(pub(\s*\([^)]*\))?\s+)')
_QUAL = re.compile(r'^((?:default|unsafe|async|const|extern(\s+"[^"]*")?)\s+)(?=(?:fn|unsafe|async|const|extern|impl|trait)\b)')


class Item(object):
    __slots__ = ('kind', 'name', 'header', 'start', 'end', 'body_start', 'attrs_start')

    def __repr__(self):
        return 'Item(%s %s %d..%d)' % (self.kind, self.name, self.start, self.end)


def norm_ws(s):
    return re.sub(r'\s+', ' ', s).strip()


def items_in(src, mask, lo, hi):
    """Enumerate items between offsets lo..hi (the inside of a file, mod,
    impl or trait block)."""
    out = []
    i = lo
    while i < hi:
        # skip whitespace and non-code
        if not mask[i] or src[i].isspace():
            i += 1
            continue
        attrs_start = i
        # attributes
        while i < hi and src[i] == '#' and mask[i]:
            j = i + 1
            if j < hi and src[j] == '!':
                j += 1
            while j < hi and src[j].isspace():
                j += 1
            if j < hi and src[j] == '[':
                i = match_brace(src, mask, j) + 1
                while i < hi and (not mask[i] or src[i].isspace()):
                    i += 1
            else:
                break
        if i >= hi:
            break
        start = i
        # header: up to first '{' or ';' at bracket depth 0
        depth = 0
        j = i
        end = None
        body_start = None
        while j < hi:
            if mask[j]:
                c = src[j]
                if c in '([':
                    depth += 1
                elif c in ')]':
                    depth -= 1
                elif c == ';' and depth == 0:
                    end = j + 1
                    break
                elif c == '{' and depth == 0:
                    body_start = j
                    k = match_brace(src, mask, j)
                    end = k + 1
                    # `= Foo { .. };` struct-literal const: continue to ';'
                    hdr = src[start:j]
                    if re.search(r'=\s*[\w:]*\s*$', hdr) and not re.search(r'=>\s*$', hdr):
                        j = k + 1
                        body_start = None
                        continue
                    break
            j += 1
        if end is None:
            break
        header = ''.join(ch if mask[start + t] else ' ' for t, ch in enumerate(src[start:(body_start if body_start is not None else end)]))
        it = Item()
        it.attrs_start = attrs_start
        it.start = start
        it.end = end
        it.body_start = body_start
        it.header = norm_ws(header)
        it.kind, it.name = _classify(it.header)
        # macro invocation with `(...)` or `[...]` followed by `;` is handled by ';' rule
        out.append(it)
        i = end
    return out


def _classify(header):
    h = header
    mm = _VIS.match(h)
    if mm:
        h = h[mm.end():]
    while True:
        mm = _QUAL.match(h)
        if not mm:
            break
        h = h[mm.end():]
    mm = re.match(r'(fn|struct|enum|union|trait|mod|type|static|use)\s+([A-Za-z_][A-Za-z0-9_]*)', h)
    if mm:
        return mm.group(1), mm.group(2)
    mm = re.match(r'const\s+([A-Za-z_][A-Za-z0-9_]*)', h)
    if mm:
        return 'const', mm.group(1)
    if h.startswith('impl'):
        return 'impl', strip_where(h)
    mm = re.match(r'macro_rules\s*!\s*([A-Za-z_][A-Za-z0-9_]*)', h)
    if mm:
        return 'macro_rules', mm.group(1)
    mm = re.match(r'([A-Za-z_][A-Za-z0-9_:]*)\s*!', h)
    if mm:
        return 'macro_call', mm.group(1)
    return 'other', h[:40]


def strip_where(h):
    h = re.sub(r'\s+where\b.*$', '', h)
    return norm_ws(h)


def find_item(src, mask, path):
    """path: list of segments, each 'kind name' (e.g. 'mod packet_type',
    'impl Decode for bool', 'fn decode', 'struct Foo', 'macro_call prim_enum#2').
    Returns Item. A trailing '#k' selects the k-th (1-based) match."""
    lo, hi = 0, len(src)
    it = None
    for seg in path:
        seg = norm_ws(seg)
        nth = 1
        mm = re.match(r'^(.*)#(\d+)$', seg)
        if mm:
            seg, nth = mm.group(1).strip(), int(mm.group(2))
        cands = []
        for cand in items_in(src, mask, lo, hi):
            if cand.kind == 'impl':
                if seg.startswith('impl') and _impl_eq(cand.name, seg):
                    cands.append(cand)
            else:
                if seg == '%s %s' % (cand.kind, cand.name):
                    cands.append(cand)
        if len(cands) < nth:
            raise AnchorLost('item not found: %s (segment %r)' % (' :: '.join(path), seg))
        if len(cands) > 1 and not mm:
            # ambiguous without explicit ordinal: cfg-duplicated items etc.
            raise AnchorLost('item ambiguous: %s (segment %r, %d matches)' % (' :: '.join(path), seg, len(cands)))
        it = cands[nth - 1]
        if it.body_start is not None:
            lo, hi = it.body_start + 1, it.end - 1
    return it


def _impl_eq(a, b):
    def n(x):
        x = norm_ws(x)
        x = re.sub(r'\s*([<>,:&])\s*', r'\1', x)
        return x
    return n(a) == n(b)


def line_of(src, off):
    return src.count('\n', 0, off) + 1

#!/bin/bash
# usage: vx/trymut.sh <patch.diff> <Cxx>...   applies the change to /repo, runs the checks, undoes it
set -u
P=$1; shift
cd /verif
git -C /repo apply "$P" || { echo "patch does not apply"; exit 3; }
for c in "$@"; do
  VERIF_OUT=/tmp/verif-mut-out ./check $c 2>&1 | grep -v "^\s*$" | head -20
  echo "  -> $c exit ${PIPESTATUS[0]}"
done
git -C /repo checkout -- .
rm -rf /tmp/verif-mut-out
git -C /repo status --short | head -3

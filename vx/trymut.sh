#!/bin/bash
# usage: vx/trymut.sh <patch.diff> <Cxx>...   runs the checks against a scratch copy of /repo/src with the change applied
set -u
P=$(readlink -f "$1"); shift
T=$(mktemp -d /tmp/verif-mut-XXXXXX)
cp -r /repo/src $T/src
( cd $T && patch -p1 -s < "$P" ) || { echo "patch does not apply"; rm -rf $T; exit 3; }
cd /verif
for c in "$@"; do
  VERIF_REPO=$T VERIF_OUT=$T/out ./check $c 2>&1 | grep -v "^\s*$" | head -24
  echo "  -> $c exit ${PIPESTATUS[0]}"
done
rm -rf $T

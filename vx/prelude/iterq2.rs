// ---- R31 targets: slice iterator adapters whose argument is a predicate, as loops verified against the predicate's own contract ----
/// `s.iter().position(f)`: index of the first element the predicate accepts
pub fn vx_it_position<T, F: Fn(&T) -> bool>(v: &[T], f: F) -> (r: Option<usize>)
    requires forall|i: int| 0 <= i < v@.len() ==> f.requires((&#[trigger] v@[i],)),
    ensures
        r is Some ==> r->0 < v@.len() && f.ensures((&v@[r->0 as int],), true) && forall|j: int| 0 <= j < r->0 ==> f.ensures((&#[trigger] v@[j],), false),
        r is None ==> forall|j: int| 0 <= j < v@.len() ==> f.ensures((&#[trigger] v@[j],), false),
{
    let mut k: usize = 0;
    while k < v.len()
        invariant k <= v@.len(), forall|i: int| 0 <= i < v@.len() ==> f.requires((&#[trigger] v@[i],)),
                  forall|j: int| 0 <= j < k ==> f.ensures((&#[trigger] v@[j],), false),
        decreases v@.len() - k
    {
        if f(&v[k]) { return Some(k); }
        k = k + 1;
    }
    None
}
/// `s.iter().rposition(f)`: index of the last element the predicate accepts
pub fn vx_it_rposition<T, F: Fn(&T) -> bool>(v: &[T], f: F) -> (r: Option<usize>)
    requires forall|i: int| 0 <= i < v@.len() ==> f.requires((&#[trigger] v@[i],)),
    ensures
        r is Some ==> r->0 < v@.len() && f.ensures((&v@[r->0 as int],), true) && forall|j: int| r->0 < j < v@.len() ==> f.ensures((&#[trigger] v@[j],), false),
        r is None ==> forall|j: int| 0 <= j < v@.len() ==> f.ensures((&#[trigger] v@[j],), false),
{
    let mut k: usize = v.len();
    while k > 0
        invariant k <= v@.len(), forall|i: int| 0 <= i < v@.len() ==> f.requires((&#[trigger] v@[i],)),
                  forall|j: int| k <= j < v@.len() ==> f.ensures((&#[trigger] v@[j],), false),
        decreases k
    {
        k = k - 1;
        if f(&v[k]) { return Some(k); }
    }
    None
}
/// `s.iter().enumerate().position(f)`: the predicate sees (index, element)
pub fn vx_it_enum_position<T, F: Fn((usize, &T)) -> bool>(v: &[T], f: F) -> (r: Option<usize>)
    requires forall|i: int| 0 <= i < v@.len() ==> f.requires(((i as usize, &#[trigger] v@[i]),)),
    ensures
        r is Some ==> r->0 < v@.len() && f.ensures(((r->0, &v@[r->0 as int]),), true) && forall|j: int| 0 <= j < r->0 ==> f.ensures(((j as usize, &#[trigger] v@[j]),), false),
        r is None ==> forall|j: int| 0 <= j < v@.len() ==> f.ensures(((j as usize, &#[trigger] v@[j]),), false),
{
    let mut k: usize = 0;
    while k < v.len()
        invariant k <= v@.len(), forall|i: int| 0 <= i < v@.len() ==> f.requires(((i as usize, &#[trigger] v@[i]),)),
                  forall|j: int| 0 <= j < k ==> f.ensures(((j as usize, &#[trigger] v@[j]),), false),
        decreases v@.len() - k
    {
        if f((k, &v[k])) { return Some(k); }
        k = k + 1;
    }
    None
}
/// `s.iter().any(f)` / `s.iter().all(f)`
pub fn vx_it_any<T, F: Fn(&T) -> bool>(v: &[T], f: F) -> (r: bool)
    requires forall|i: int| 0 <= i < v@.len() ==> f.requires((&#[trigger] v@[i],)),
    ensures
        r ==> exists|i: int| 0 <= i < v@.len() && f.ensures((&#[trigger] v@[i],), true),
        !r ==> forall|i: int| 0 <= i < v@.len() ==> f.ensures((&#[trigger] v@[i],), false),
{
    let mut k: usize = 0;
    while k < v.len()
        invariant k <= v@.len(), forall|i: int| 0 <= i < v@.len() ==> f.requires((&#[trigger] v@[i],)),
                  forall|i: int| 0 <= i < k ==> f.ensures((&#[trigger] v@[i],), false),
        decreases v@.len() - k
    {
        if f(&v[k]) { return true; }
        k = k + 1;
    }
    false
}
pub fn vx_it_all<T, F: Fn(&T) -> bool>(v: &[T], f: F) -> (r: bool)
    requires forall|i: int| 0 <= i < v@.len() ==> f.requires((&#[trigger] v@[i],)),
    ensures
        r ==> forall|i: int| 0 <= i < v@.len() ==> f.ensures((&#[trigger] v@[i],), true),
        !r ==> exists|i: int| 0 <= i < v@.len() && f.ensures((&#[trigger] v@[i],), false),
{
    let mut k: usize = 0;
    while k < v.len()
        invariant k <= v@.len(), forall|i: int| 0 <= i < v@.len() ==> f.requires((&#[trigger] v@[i],)),
                  forall|i: int| 0 <= i < k ==> f.ensures((&#[trigger] v@[i],), true),
        decreases v@.len() - k
    {
        if !f(&v[k]) { return false; }
        k = k + 1;
    }
    true
}

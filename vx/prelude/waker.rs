// ---- shim: ntex_util::task::LocalWaker (assumed contract) ----
// `wakes()` counts calls of wake(); register() never wakes.
#[verifier::external_body]
pub struct LocalWaker { _p: () }
impl LocalWaker {
    pub uninterp spec fn wakes(&self) -> nat;
    #[verifier::external_body]
    pub fn wake(&mut self)
        ensures final(self).wakes() == old(self).wakes() + 1
    {}
    #[verifier::external_body]
    pub fn register(&mut self, w: &VxWaker)
        ensures final(self).wakes() == old(self).wakes()
    {}
}
#[verifier::external_body]
pub struct VxWaker { _p: () }
#[verifier::external_body]
pub struct Context<'a> { _p: &'a () }
impl<'a> Context<'a> {
    #[verifier::external_body]
    pub fn waker(&self) -> (r: &VxWaker) { unimplemented!() }
}

// ---- shims: ntex_bytes::{Bytes, BytePages, ByteString} and the Buf/BufMut methods the
// ---- repo calls (assumed contracts = the crate's documented behaviour; the panicking
// ---- conditions of the real methods are preconditions here, so "no panic" becomes an
// ---- obligation at every call site)
#[verifier::external_body]
pub struct Bytes { inner: Vec<u8> }
impl View for Bytes { type V = Seq<u8>; uninterp spec fn view(&self) -> Seq<u8>; }
impl Clone for Bytes {
    #[verifier::external_body]
    fn clone(&self) -> (r: Self) ensures r@ == self@ { Bytes { inner: self.inner.clone() } }
}
impl Bytes {
    #[verifier::external_body]
    pub fn new() -> (r: Self) ensures r@.len() == 0 { Bytes { inner: Vec::new() } }
    #[verifier::external_body]
    pub fn len(&self) -> (r: usize) ensures r == self@.len() { self.inner.len() }
    #[verifier::external_body]
    pub fn is_empty(&self) -> (r: bool) ensures r == (self@.len() == 0) { self.inner.is_empty() }
    /// AsRef<[u8]>: the remaining bytes as a slice (nothing is consumed)
    #[verifier::external_body]
    pub fn as_ref(&self) -> (r: &[u8]) ensures r@ == self@ { &self.inner }
    #[verifier::external_body]
    pub fn split_to(&mut self, at: usize) -> (r: Bytes)
        requires at <= old(self)@.len(),
        ensures r@ == old(self)@.take(at as int), final(self)@ == old(self)@.skip(at as int),
    { unimplemented!() }
    #[verifier::external_body]
    pub fn split_off(&mut self, at: usize) -> (r: Bytes)
        requires at <= old(self)@.len(),
        ensures final(self)@ == old(self)@.take(at as int), r@ == old(self)@.skip(at as int),
    { unimplemented!() }
}

/// ntex_bytes::Buf (the subset the repo uses)
pub trait Buf {
    spec fn buf_view(&self) -> Seq<u8>;
    /// ghost: number of bytes consumed from this buffer so far
    spec fn buf_pos(&self) -> nat;
    fn remaining(&self) -> (r: usize) ensures r == self.buf_view().len();
    fn has_remaining(&self) -> (r: bool) ensures r == (self.buf_view().len() > 0);
    fn get_u8(&mut self) -> (r: u8)
        requires old(self).buf_view().len() >= 1,
        ensures r == old(self).buf_view()[0], final(self).buf_view() == old(self).buf_view().skip(1), final(self).buf_pos() == old(self).buf_pos() + 1;
    fn get_u16(&mut self) -> (r: u16)
        requires old(self).buf_view().len() >= 2,
        ensures r == be16_val(old(self).buf_view()), final(self).buf_view() == old(self).buf_view().skip(2), final(self).buf_pos() == old(self).buf_pos() + 2;
    fn get_u32(&mut self) -> (r: u32)
        requires old(self).buf_view().len() >= 4,
        ensures r == be32_val(old(self).buf_view()), final(self).buf_view() == old(self).buf_view().skip(4), final(self).buf_pos() == old(self).buf_pos() + 4;
    fn advance(&mut self, cnt: usize)
        requires cnt <= old(self).buf_view().len(),
        ensures final(self).buf_view() == old(self).buf_view().skip(cnt as int), final(self).buf_pos() == old(self).buf_pos() + cnt;
}
pub open spec fn be16_val(s: Seq<u8>) -> u16 { ((s[0] as u16) * 256 + (s[1] as u16)) as u16 }
pub open spec fn be32_val(s: Seq<u8>) -> u32 {
    ((s[0] as u32) * 16777216 + (s[1] as u32) * 65536 + (s[2] as u32) * 256 + (s[3] as u32)) as u32
}
pub open spec fn be16(n: u16) -> Seq<u8> { seq![(n / 256) as u8, (n % 256) as u8] }
pub open spec fn be32(n: u32) -> Seq<u8> {
    seq![(n / 16777216) as u8, ((n / 65536) % 256) as u8, ((n / 256) % 256) as u8, (n % 256) as u8]
}
impl Bytes { pub uninterp spec fn vx_consumed(&self) -> nat; }
impl Buf for Bytes {
    open spec fn buf_view(&self) -> Seq<u8> { self@ }
    open spec fn buf_pos(&self) -> nat { self.vx_consumed() }
    #[verifier::external_body]
    fn remaining(&self) -> (r: usize) { self.inner.len() }
    #[verifier::external_body]
    fn has_remaining(&self) -> (r: bool) { !self.inner.is_empty() }
    #[verifier::external_body]
    fn get_u8(&mut self) -> (r: u8) { unimplemented!() }
    #[verifier::external_body]
    fn get_u16(&mut self) -> (r: u16) { unimplemented!() }
    #[verifier::external_body]
    fn get_u32(&mut self) -> (r: u32) { unimplemented!() }
    #[verifier::external_body]
    fn advance(&mut self, cnt: usize) { unimplemented!() }
}

#[verifier::external_body]
pub struct ByteString { inner: Vec<u8> }
impl View for ByteString { type V = Seq<u8>; uninterp spec fn view(&self) -> Seq<u8>; }
/// uninterpreted: "these bytes are valid UTF-8"
pub uninterp spec fn is_utf8(s: Seq<u8>) -> bool;
impl Clone for ByteString {
    #[verifier::external_body]
    fn clone(&self) -> (r: Self) ensures r@ == self@ { unimplemented!() }
}
impl ByteString {
    #[verifier::external_body]
    pub fn new() -> (r: Self) ensures r@.len() == 0 { unimplemented!() }
    #[verifier::external_body]
    pub fn len(&self) -> (r: usize) ensures r == self@.len() { self.inner.len() }
    #[verifier::external_body]
    pub fn is_empty(&self) -> (r: bool) ensures r == (self@.len() == 0) { self.inner.is_empty() }
    #[verifier::external_body]
    pub fn as_bytes(&self) -> (r: &Bytes) ensures r@ == self@ { unimplemented!() }
    /// ByteString::try_from(Bytes): Ok exactly for valid UTF-8, same bytes
    #[verifier::external_body]
    pub fn try_from(b: Bytes) -> (r: Result<ByteString, ()>)
        ensures r is Ok <==> is_utf8(b@), r is Ok ==> r->Ok_0@ == b@,
    { unimplemented!() }
}

#[verifier::external_body]
pub struct BytePages { inner: Vec<u8> }
impl View for BytePages { type V = Seq<u8>; uninterp spec fn view(&self) -> Seq<u8>; }
impl BytePages {
    #[verifier::external_body]
    pub fn len(&self) -> (r: usize) ensures r == self@.len() { self.inner.len() }
    #[verifier::external_body]
    pub fn put_u8(&mut self, v: u8) ensures final(self)@ == old(self)@.push(v) { self.inner.push(v) }
    #[verifier::external_body]
    pub fn put_u16(&mut self, v: u16) ensures final(self)@ == old(self)@ + be16(v) { unimplemented!() }
    #[verifier::external_body]
    pub fn put_u32(&mut self, v: u32) ensures final(self)@ == old(self)@ + be32(v) { unimplemented!() }
    #[verifier::external_body]
    pub fn put_slice(&mut self, s: &[u8]) ensures final(self)@ == old(self)@ + s@ { unimplemented!() }
    #[verifier::external_body]
    pub fn extend_from_slice(&mut self, s: &[u8]) ensures final(self)@ == old(self)@ + s@ { unimplemented!() }
    #[verifier::external_body]
    pub fn append(&mut self, b: Bytes) ensures final(self)@ == old(self)@ + b@ { unimplemented!() }
}

/// R6 target for `u8::from(<bool field>)` (std: false -> 0, true -> 1; vstd has no spec for it)
pub fn vx_u8_from_bool(b: bool) -> (r: u8)
    ensures r == (if b { 1u8 } else { 0u8 })
{ if b { 1 } else { 0 } }
/// R6 target for `&src.as_ref()[0..4] == MQTT` with `MQTT = b"MQTT"` (protocol name, MQTT 5 section 3.1.2.1)
#[verifier::external_body]
pub fn vx_starts_with_mqtt(src: &Bytes) -> (r: bool)
    requires src@.len() >= 4,
    ensures r == (src@[0] == 0x4Du8 && src@[1] == 0x51u8 && src@[2] == 0x54u8 && src@[3] == 0x54u8),
{ unimplemented!() }
/// ByteString equality is byte equality (ntex_bytes: PartialEq via the underlying bytes)
impl PartialEq for ByteString {
    #[verifier::external_body]
    fn eq(&self, other: &Self) -> (r: bool) { unimplemented!() }
}
impl vstd::std_specs::cmp::PartialEqSpecImpl for ByteString {
    open spec fn obeys_eq_spec() -> bool { true }
    open spec fn eq_spec(&self, other: &Self) -> bool { self@ == other@ }
}
/// R6 target for `a.as_str() != b.as_str()` (string comparison = byte comparison)
pub fn vx_bstr_eq(a: &ByteString, b: &ByteString) -> (r: bool) ensures r == (a@ == b@) { *a == *b }
impl ByteString {
    /// ByteString::trimdown releases spare capacity; the contents do not change
    #[verifier::external_body]
    pub fn trimdown(&mut self) ensures final(self)@ == old(self)@ { }
}
impl ByteString {
    /// identity borrow (lets method-call auto-deref strip reference layers for the R6 comparison shim)
    pub fn vx_b(&self) -> (r: &ByteString) ensures r@ == self@ { self }
}

/// R42 target for `v.extend(opt)`: an `Option` iterates over zero or one element
pub fn vx_extend_opt<T>(v: &mut Vec<T>, o: Option<T>)
    ensures o is Some ==> final(v)@ == old(v)@.push(o->0), o is None ==> final(v)@ == old(v)@,
{
    match o { Some(x) => { v.push(x); } None => {} }
}

/// R43 target for `drop(x)`: takes its argument by value and lets it go
pub fn vx_drop<T>(t: T) { }

// ---- R6 targets for `str::contains` on a ByteString with printable-ASCII patterns (assumed: the std documentation of str::contains) ----
pub open spec fn has_any2(s: Seq<u8>, a: u8, b: u8) -> bool { exists|i: int| 0 <= i < s.len() && (s[i] == a || s[i] == b) }
pub open spec fn has_sub(s: Seq<u8>, p: Seq<u8>) -> bool { exists|i: int| 0 <= i && i + p.len() <= s.len() && #[trigger] s.subrange(i, i + p.len()) == p }
/// `s.contains(['a', 'b'])`, `s.contains('a')` for ASCII characters: some byte of the string is one of them (std: `str::contains` with a char / char-array pattern)
#[verifier::external_body] pub fn vx_bstr_has_any2(s: &ByteString, a: u8, b: u8) -> (r: bool) ensures r == has_any2(s@, a, b) { unimplemented!() }
/// `s.contains("lit")` for an ASCII literal: the literal's bytes occur as a contiguous run (std: `str::contains` with a `&str` pattern)
#[verifier::external_body] pub fn vx_bstr_has_sub1(s: &ByteString, a: u8) -> (r: bool) ensures r == has_sub(s@, seq![a]) { unimplemented!() }
#[verifier::external_body] pub fn vx_bstr_has_sub2(s: &ByteString, a: u8, b: u8) -> (r: bool) ensures r == has_sub(s@, seq![a, b]) { unimplemented!() }
#[verifier::external_body] pub fn vx_bstr_has_sub3(s: &ByteString, a: u8, b: u8, c: u8) -> (r: bool) ensures r == has_sub(s@, seq![a, b, c]) { unimplemented!() }
#[verifier::external_body] pub fn vx_bstr_has_sub4(s: &ByteString, a: u8, b: u8, c: u8, d: u8) -> (r: bool) ensures r == has_sub(s@, seq![a, b, c, d]) { unimplemented!() }

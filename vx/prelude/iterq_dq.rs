// ---- R31dq targets: VecDeque iterator adapters whose argument is a predicate, as loops verified against the predicate's own contract ----
/// `q.iter().position(f)` on a VecDeque: index of the first element the predicate accepts
pub fn vx_dq_position<T, F: Fn(&T) -> bool>(v: &std::collections::VecDeque<T>, f: F) -> (r: Option<usize>)
    requires forall|i: int| 0 <= i < v@.len() ==> f.requires((&#[trigger] v@[i],)),
    ensures
        r is Some ==> r->0 < v@.len() && f.ensures((&v@[r->0 as int],), true) && forall|j: int| 0 <= j < r->0 ==> f.ensures((&#[trigger] v@[j],), false),
        r is None ==> forall|j: int| 0 <= j < v@.len() ==> f.ensures((&#[trigger] v@[j],), false),
{
    let mut k: usize = 0;
    while k < v.len()
        invariant k <= v@.len(), forall|i: int| 0 <= i < v@.len() ==> f.requires((&#[trigger] v@[i],)),
                  forall|j: int| 0 <= j < k ==> f.ensures((&#[trigger] v@[j],), false),
        decreases v@.len() - k
    {
        if f(&v[k]) { return Some(k); }
        k = k + 1;
    }
    None
}
/// `q.iter().any(f)` on a VecDeque
pub fn vx_dq_any<T, F: Fn(&T) -> bool>(v: &std::collections::VecDeque<T>, f: F) -> (r: bool)
    requires forall|i: int| 0 <= i < v@.len() ==> f.requires((&#[trigger] v@[i],)),
    ensures
        r ==> exists|i: int| 0 <= i < v@.len() && f.ensures((&#[trigger] v@[i],), true),
        !r ==> forall|i: int| 0 <= i < v@.len() ==> f.ensures((&#[trigger] v@[i],), false),
{
    let mut k: usize = 0;
    while k < v.len()
        invariant k <= v@.len(), forall|i: int| 0 <= i < v@.len() ==> f.requires((&#[trigger] v@[i],)),
                  forall|i: int| 0 <= i < k ==> f.ensures((&#[trigger] v@[i],), false),
        decreases v@.len() - k
    {
        if f(&v[k]) { return true; }
        k = k + 1;
    }
    false
}

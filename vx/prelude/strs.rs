// ---- shims: &str as its UTF-8 bytes (assumed: str::bytes / str::is_empty are the obvious functions of the byte sequence) ----
pub uninterp spec fn str_bytes_of(s: &str) -> Seq<u8>;
/// R6 target for `topic.is_empty()`
#[verifier::external_body]
pub fn vx_str_is_empty(s: &str) -> (r: bool) ensures r == (str_bytes_of(s).len() == 0) { s.is_empty() }
/// R6 target for `topic.bytes()` (iterated by value)
#[verifier::external_body]
pub fn vx_str_bytes(s: &str) -> (r: Vec<u8>) ensures r@ == str_bytes_of(s) { s.bytes().collect() }

// ---- R21 targets: `v.iter().any(f)` / `v.iter().all(f)` as verified loops over the closure's own contract ----
pub fn vx_iter_any<T, F: Fn(&T) -> bool>(v: &Vec<T>, f: F) -> (r: bool)
    requires forall|i: int| 0 <= i < v@.len() ==> f.requires((&#[trigger] v@[i],)),
    ensures
        r ==> exists|i: int| 0 <= i < v@.len() && f.ensures((&#[trigger] v@[i],), true),
        !r ==> forall|i: int| 0 <= i < v@.len() ==> f.ensures((&#[trigger] v@[i],), false),
{
    let mut k: usize = 0;
    while k < v.len()
        invariant k <= v@.len(), forall|i: int| 0 <= i < v@.len() ==> f.requires((&#[trigger] v@[i],)),
                  forall|i: int| 0 <= i < k ==> f.ensures((&#[trigger] v@[i],), false),
        decreases v@.len() - k
    {
        if f(&v[k]) { return true; }
        k = k + 1;
    }
    false
}
pub fn vx_iter_all<T, F: Fn(&T) -> bool>(v: &Vec<T>, f: F) -> (r: bool)
    requires forall|i: int| 0 <= i < v@.len() ==> f.requires((&#[trigger] v@[i],)),
    ensures
        r ==> forall|i: int| 0 <= i < v@.len() ==> f.ensures((&#[trigger] v@[i],), true),
        !r ==> exists|i: int| 0 <= i < v@.len() && f.ensures((&#[trigger] v@[i],), false),
{
    let mut k: usize = 0;
    while k < v.len()
        invariant k <= v@.len(), forall|i: int| 0 <= i < v@.len() ==> f.requires((&#[trigger] v@[i],)),
                  forall|i: int| 0 <= i < k ==> f.ensures((&#[trigger] v@[i],), true),
        decreases v@.len() - k
    {
        if !f(&v[k]) { return false; }
        k = k + 1;
    }
    true
}

// ---- shims: ntex_util::channel::pool (assumed contracts) ----
// A channel is identified by a ghost id shared by its two halves.  `send` hands the
// value to the receiver if it is still alive (Ok) or gives it back (Err); whether the
// receiver is alive is not known to the sender, so the result is unconstrained.
pub mod pool {
    use super::*;
    #[verifier::external_body]
    #[verifier::reject_recursive_types(T)]
    pub struct Sender<T> { _p: core::marker::PhantomData<T> }
    #[verifier::external_body]
    #[verifier::reject_recursive_types(T)]
    pub struct Receiver<T> { _p: core::marker::PhantomData<T> }
    #[verifier::external_body]
    #[verifier::reject_recursive_types(T)]
    pub struct Pool<T> { _p: core::marker::PhantomData<T> }
    impl<T> Sender<T> {
        pub uninterp spec fn chan(&self) -> int;
        #[verifier::external_body]
        pub fn send(self, v: T) -> (r: Result<(), T>)
            ensures r is Err ==> r->Err_0 == v,
        { unimplemented!() }
        #[verifier::external_body]
        pub fn is_canceled(&self) -> (r: bool) { unimplemented!() }
    }
    impl<T> Receiver<T> {
        pub uninterp spec fn chan(&self) -> int;
        /// `rx.await` where the contract does not say more: the value sent, or an error when the sender is gone
        #[verifier::external_body]
        pub fn vx_await(self) -> (r: Result<T, ()>) { unimplemented!() }
    }
    impl<T> Pool<T> {
        #[verifier::external_body]
        pub fn channel(&self) -> (r: (Sender<T>, Receiver<T>))
            ensures r.0.chan() == r.1.chan(),
        { unimplemented!() }
    }
}
// shim for `Box<dyn Fn(A, B)>` user callbacks: calling it has no effect on the state
// under verification (assumption A3: the callback does not re-enter the sink)
#[verifier::external_body]
#[verifier::reject_recursive_types(A)]
pub struct VxBoxFn<A> { _p: core::marker::PhantomData<A> }
impl<A, B> VxBoxFn<(A, B)> {
    #[verifier::external_body]
    pub fn vx_call(&self, a: A, b: B) { unimplemented!() }
}

// ---- R18 targets: a slice iterator used only through next()/last() is a cursor (bodies verified) ----
/// core::slice::Iter::next
pub fn vx_iter_next<'a, T>(v: &'a Vec<T>, pos: &mut usize) -> (r: Option<&'a T>)
    requires *old(pos) <= v@.len(),
    ensures
        *old(pos) < v@.len() ==> r == Some(&v@[*old(pos) as int]) && *final(pos) == *old(pos) + 1,
        *old(pos) == v@.len() ==> r is None && *final(pos) == *old(pos),
{
    if *pos < v.len() { let r = &v[*pos]; *pos = *pos + 1; Some(r) } else { None }
}
/// Iterator::last on a slice iterator: consumes it and yields the last remaining element
pub fn vx_iter_last<'a, T>(v: &'a Vec<T>, pos: &mut usize) -> (r: Option<&'a T>)
    requires *old(pos) <= v@.len(),
    ensures
        *old(pos) < v@.len() ==> r == Some(&v@[v@.len() - 1]),
        *old(pos) == v@.len() ==> r is None,
        *final(pos) == v@.len(),
{
    if *pos < v.len() { let n = v.len(); *pos = n; Some(&v[n - 1]) } else { None }
}

// ---- shim: ntex_bytes::BytesMut as the read buffer handed to Decoder::decode (assumed contracts) ----
#[verifier::external_body]
pub struct BytesMut { inner: Vec<u8> }
impl View for BytesMut { type V = Seq<u8>; uninterp spec fn view(&self) -> Seq<u8>; }
impl BytesMut {
    #[verifier::external_body]
    pub fn len(&self) -> (r: usize) ensures r == self@.len() { self.inner.len() }
    #[verifier::external_body]
    pub fn remaining(&self) -> (r: usize) ensures r == self@.len() { self.inner.len() }
    #[verifier::external_body]
    pub fn as_ref(&self) -> (r: &[u8]) ensures r@ == self@ { &self.inner }
    /// panics when cnt > len: precondition
    #[verifier::external_body]
    pub fn advance(&mut self, cnt: usize)
        requires cnt <= old(self)@.len(),
        ensures final(self)@ == old(self)@.skip(cnt as int),
    { unimplemented!() }
    /// capacity only
    #[verifier::external_body]
    pub fn reserve(&mut self, additional: usize) ensures final(self)@ == old(self)@ { }
    /// panics when at > len: precondition
    #[verifier::external_body]
    pub fn split_to(&mut self, at: usize) -> (r: Bytes)
        requires at <= old(self)@.len(),
        ensures r@ == old(self)@.take(at as int), final(self)@ == old(self)@.skip(at as int),
    { unimplemented!() }
    /// BytesMut::take: hands out everything that is buffered and leaves the buffer empty (read off ntex-bytes 1.9 src/bvec.rs)
    #[verifier::external_body]
    pub fn take(&mut self) -> (r: Bytes)
        ensures r@ == old(self)@, final(self)@.len() == 0,
    { unimplemented!() }
    /// R6 target for `src[i]` (Index<usize>): panics when out of bounds
    #[verifier::external_body]
    pub fn vx_at(&self, i: usize) -> (r: u8)
        requires i < self@.len(),
        ensures r == self@[i as int],
    { self.inner[i] }
    /// R6 target for `&src[from..]` (Index<RangeFrom>): panics when from > len
    #[verifier::external_body]
    pub fn vx_from(&self, from: usize) -> (r: &[u8])
        requires from <= self@.len(),
        ensures r@ == self@.skip(from as int),
    { &self.inner[from..] }
}
/// `&s[from..]` on a slice
#[verifier::external_body]
pub fn vx_slice_from(s: &[u8], from: usize) -> (r: &[u8])
    requires from <= s@.len(),
    ensures r@ == s@.skip(from as int),
{ &s[from..] }
/// std::io::Cursor<&[u8]> as ntex_bytes::Buf (what decode_variable_length uses)
#[verifier::external_body]
pub struct Cursor<'a> { s: &'a [u8], pos: usize }
impl<'a> Cursor<'a> {
    pub uninterp spec fn all(&self) -> Seq<u8>;
    pub uninterp spec fn pos(&self) -> nat;
    #[verifier::external_body]
    pub fn new(s: &'a [u8]) -> (r: Self) ensures r.all() == s@, r.pos() == 0 { Cursor { s, pos: 0 } }
    #[verifier::external_body]
    pub fn position(&self) -> (r: u64) ensures r == self.pos() { self.pos as u64 }
}
impl<'a> Buf for Cursor<'a> {
    open spec fn buf_view(&self) -> Seq<u8> { self.all().skip(self.pos() as int) }
    open spec fn buf_pos(&self) -> nat { self.pos() }
    #[verifier::external_body]
    fn remaining(&self) -> (r: usize) { unimplemented!() }
    #[verifier::external_body]
    fn has_remaining(&self) -> (r: bool) { unimplemented!() }
    #[verifier::external_body]
    fn get_u8(&mut self) -> (r: u8) { unimplemented!() }
    #[verifier::external_body]
    fn get_u16(&mut self) -> (r: u16) { unimplemented!() }
    #[verifier::external_body]
    fn get_u32(&mut self) -> (r: u32) { unimplemented!() }
    #[verifier::external_body]
    fn advance(&mut self, cnt: usize) { unimplemented!() }
}
/// R6 target for `u16::from_be_bytes([a, b])` (body verified against the big-endian definition)
pub fn vx_u16_from_be(a: u8, b: u8) -> (r: u16)
    ensures r == (a as int) * 256 + (b as int)
{ (a as u16) * 256 + (b as u16) }
/// R6 target for `u16::from_be_bytes(src[i..i + 2].try_into().unwrap())` (panics when i + 2 > len)
#[verifier::external_body]
pub fn vx_be16_at(src: &BytesMut, i: usize) -> (r: u16)
    requires i + 2 <= src@.len(),
    ensures r == (src@[i as int] as int) * 256 + (src@[i as int + 1] as int),
{ unimplemented!() }
/// R6 target for `&src[i..i + 4] == MQTT` with `MQTT = b"MQTT"` (panics when i + 4 > len)
#[verifier::external_body]
pub fn vx_eq_mqtt_at(src: &BytesMut, i: usize) -> (r: bool)
    requires i + 4 <= src@.len(),
    ensures r == (src@[i as int] == 0x4Du8 && src@[i as int + 1] == 0x51u8 && src@[i as int + 2] == 0x54u8 && src@[i as int + 3] == 0x54u8),
{ unimplemented!() }

// ---- HashSet<NonZeroU16>: the key model vstd asks for (assumed: NonZeroU16's Hash/Eq are the u16 ones) ----
pub mod vx_axioms {
    use vstd::prelude::*;
    pub broadcast axiom fn axiom_nonzero_u16_key_model()
        ensures #[trigger] vstd::std_specs::hash::obeys_key_model::<core::num::NonZeroU16>();
}

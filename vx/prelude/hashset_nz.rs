// ---- assumed facts about core::num::NonZero* that vstd does not state ----
//  * HashSet<NonZeroU16>: the key model vstd asks for (NonZeroU16's Hash/Eq are the u16 ones)
//  * extensionality: a NonZero value is determined by get()
pub mod vx_axioms {
    use vstd::prelude::*;
    pub broadcast axiom fn axiom_nonzero_u16_key_model()
        ensures #[trigger] vstd::std_specs::hash::obeys_key_model::<core::num::NonZeroU16>();
    pub broadcast axiom fn axiom_nonzero_u16_ext(a: core::num::NonZeroU16, b: core::num::NonZeroU16)
        ensures (#[trigger] a.get() == #[trigger] b.get()) <==> a == b;
    pub broadcast axiom fn axiom_nonzero_u32_ext(a: core::num::NonZeroU32, b: core::num::NonZeroU32)
        ensures (#[trigger] a.get() == #[trigger] b.get()) <==> a == b;
}
/// `NonZeroU16::MIN` / `NonZeroU16::MAX` (std constants: 1 and 65535)
#[verifier::external_body] pub fn vx_nz16_min() -> (r: core::num::NonZeroU16) ensures r.get() == 1 { core::num::NonZeroU16::MIN }
#[verifier::external_body] pub fn vx_nz16_max() -> (r: core::num::NonZeroU16) ensures r.get() == 65535 { core::num::NonZeroU16::MAX }

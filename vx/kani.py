"""Kani side (unit K1): integer kernels and the real prim_enum! expansion.

A scratch crate without dependencies is written on every run; its lib.rs holds items copied *verbatim*
from /repo (located by path, not by line) followed by the harness file kani/k1_harness.rs.  Nothing of
ntex_bytes is touched (Kani 0.68 ICEs on it), so no dependency has to be built and `cargo kani` runs
offline in a few seconds per harness.  Every harness is loop-free over the full input domain.
"""
import os
import re
import json
import time
import shutil
import hashlib
import tempfile
import subprocess

from rustlex import code_mask, find_item, AnchorLost

HERE = os.path.dirname(os.path.abspath(__file__))
ROOT = os.path.dirname(HERE)

# (file, item path, wrap-in-module or None)
ITEMS = [
    ('src/utils.rs', ['macro_rules prim_enum'], None),
    ('src/types.rs', ['macro_call prim_enum'], None),
    ('src/v3/codec/packet.rs', ['macro_call prim_enum'], 'v3enum'),
    ('src/v5/codec/packet/pubacks.rs', ['macro_call prim_enum#1'], None),
    ('src/v5/codec/packet/pubacks.rs', ['macro_call prim_enum#2'], None),
    ('src/v5/codec/packet/subscribe.rs', ['macro_call prim_enum#1'], None),
    ('src/v5/codec/packet/subscribe.rs', ['macro_call prim_enum#2'], None),
    ('src/v5/codec/packet/subscribe.rs', ['macro_call prim_enum#3'], None),
    ('src/v5/codec/packet/auth.rs', ['macro_call prim_enum'], None),
    ('src/v5/codec/packet/disconnect.rs', ['macro_call prim_enum'], None),
    ('src/v5/codec/packet/connack.rs', ['macro_call prim_enum'], None),
    ('src/v5/codec/encode.rs', ['fn var_int_len'], None),
    ('src/v5/codec/encode.rs', ['fn var_int_len_u32'], None),
    ('src/v5/codec/encode.rs', ['fn var_int_len_from_size'], None),
    ('src/v5/codec/encode.rs', ['fn reduce_limit'], None),
]

HARNESS_PROPS = {
    'k1_var_int_len_u32_full_domain': (['C09', 'C01'], 'src/v5/codec/encode.rs', 'var_int_len_u32'),
    'k1_var_int_len_usize_full_domain': (['C09', 'C01'], 'src/v5/codec/encode.rs', 'var_int_len'),
    'k1_var_int_len_from_size_inverse': (['C09', 'C01'], 'src/v5/codec/encode.rs', 'var_int_len_from_size'),
    'k1_reduce_limit_saturates': (['C09'], 'src/v5/codec/encode.rs', 'reduce_limit'),
    'k1_enum_qos': (['C01', 'C02'], 'src/types.rs', 'prim_enum! QoS'),
    'k1_enum_connack_reason_v3': (['C01', 'C02'], 'src/v3/codec/packet.rs', 'prim_enum! ConnectAckReason'),
    'k1_enum_puback_reason': (['C01', 'C02'], 'src/v5/codec/packet/pubacks.rs', 'prim_enum! PublishAckReason'),
    'k1_enum_pubrel_reason': (['C01', 'C02'], 'src/v5/codec/packet/pubacks.rs', 'prim_enum! PublishAck2Reason'),
    'k1_enum_retain_handling': (['C01', 'C02'], 'src/v5/codec/packet/subscribe.rs', 'prim_enum! RetainHandling'),
    'k1_enum_suback_reason': (['C01', 'C02'], 'src/v5/codec/packet/subscribe.rs', 'prim_enum! SubscribeAckReason'),
    'k1_enum_unsuback_reason': (['C01', 'C02'], 'src/v5/codec/packet/subscribe.rs', 'prim_enum! UnsubscribeAckReason'),
    'k1_enum_auth_reason': (['C01', 'C02'], 'src/v5/codec/packet/auth.rs', 'prim_enum! AuthReasonCode'),
    'k1_enum_disconnect_reason': (['C01', 'C02', 'C15'], 'src/v5/codec/packet/disconnect.rs', 'prim_enum! DisconnectReasonCode'),
    'k1_enum_connack_reason_v5': (['C01', 'C02'], 'src/v5/codec/packet/connack.rs', 'prim_enum! ConnectAckReason'),
}


def build_lib(repo):
    parts = ['#![allow(unused, non_camel_case_types, clippy::all)]\n',
             '// items below are copied verbatim from the repository working tree\n',
             'pub mod error { #[derive(Debug, Copy, Clone, PartialEq, Eq)] pub enum DecodeError { MalformedPacket } }\n']
    dropped = []
    for rel, path, wrap in ITEMS:
        p = os.path.join(repo, rel)
        if not os.path.exists(p):
            raise AnchorLost('file missing: ' + rel)
        src = open(p).read()
        it = find_item(src, code_mask(src), path)
        text = src[it.attrs_start:it.end]
        # serde derives need the serde crate: dropped (logged)
        new = re.sub(r'serde::Serialize,\s*serde::Deserialize,\s*', '', text)
        if new != text:
            dropped.append('%s: serde derives of %s' % (rel, path[-1]))
        # visibility qualifiers mean nothing in the scratch crate root: pub(super)/pub(crate) -> pub(crate) (logged)
        text2 = re.sub(r'\bpub\s*\(\s*(?:super|crate)\s*\)', 'pub(crate)', new)
        if text2 != new:
            dropped.append('%s: visibility of %s normalised to pub(crate)' % (rel, path[-1]))
        text = text2
        if wrap:
            text = 'pub mod %s { use super::*;\n%s\n}\n' % (wrap, text)
        parts.append('// ---- %s :: %s\n%s\n' % (rel, ' :: '.join(path), text))
    parts.append('use v3enum::ConnectAckReason as ConnectAckReasonV3;\n')
    parts.append(open(os.path.join(ROOT, 'kani', 'k1_harness.rs')).read())
    return ''.join(parts), dropped


def run(repo, want_props, use_cache=True):
    """returns dict(harnesses=[...], cmd, trusted, bounded, solver_s, run) for the harnesses serving want_props"""
    lib, dropped = build_lib(repo)
    names = [h for h, (props, _, _) in HARNESS_PROPS.items() if set(props) & set(want_props)]
    key = hashlib.sha256((lib + '|' + ','.join(sorted(names))).encode()).hexdigest()
    cdir = os.path.join(ROOT, '.cache', 'kani')
    cpath = os.path.join(cdir, key + '.json')
    if use_cache and os.environ.get('VERIF_NO_CACHE') != '1' and os.path.exists(cpath):
        res = json.load(open(cpath))
        res['cached'] = True
        return _package(res, names, dropped)
    tmp = tempfile.mkdtemp(prefix='verif-kani-')
    res = {'harness': {}, 'wall_s': 0.0, 'cached': False}
    try:
        os.makedirs(os.path.join(tmp, 'src'))
        with open(os.path.join(tmp, 'Cargo.toml'), 'w') as fh:
            fh.write('[package]\nname = "vx_k1"\nversion = "0.0.0"\nedition = "2021"\n[lib]\npath = "src/lib.rs"\n[workspace]\n')
        with open(os.path.join(tmp, 'src', 'lib.rs'), 'w') as fh:
            fh.write(lib)
        env = dict(os.environ, CARGO_NET_OFFLINE='true')
        t0 = time.time()
        p = subprocess.run(['cargo', 'kani', '--output-format', 'terse', '-j', '8'], cwd=tmp, env=env,
                           stdout=subprocess.PIPE, stderr=subprocess.STDOUT, universal_newlines=True)
        res['wall_s'] = time.time() - t0
        out = p.stdout
        res['rc'] = p.returncode
        cur = None
        for ln in out.split('\n'):
            mm = re.search(r'Checking harness (\w+)', ln)
            if mm:
                cur = mm.group(1)
                res['harness'][cur] = {'status': 'UNKNOWN', 'lines': []}
                continue
            mm = re.search(r'Thread \d+: Checking harness (\w+)', ln)
            if cur is not None:
                res['harness'][cur]['lines'].append(ln)
                if 'VERIFICATION:- SUCCESSFUL' in ln:
                    res['harness'][cur]['status'] = 'SUCCESS'
                elif 'VERIFICATION:- FAILED' in ln:
                    res['harness'][cur]['status'] = 'FAILURE'
        # terse parallel output: fall back to the summary lines
        for mm in re.finditer(r'Verification failed for - (\w+)', out):
            res['harness'].setdefault(mm.group(1), {'status': 'FAILURE', 'lines': []})['status'] = 'FAILURE'
        mm = re.search(r'Complete - (\d+) successfully verified harnesses, (\d+) failures, (\d+) total', out)
        res['summary'] = mm.group(0) if mm else ''
        if mm and int(mm.group(2)) == 0 and int(mm.group(1)) == int(mm.group(3)):
            for h in HARNESS_PROPS:
                res['harness'].setdefault(h, {'status': 'SUCCESS', 'lines': []})
                if res['harness'][h]['status'] == 'UNKNOWN':
                    res['harness'][h]['status'] = 'SUCCESS'
        res['tail'] = out[-3000:]
        for h in res['harness'].values():
            h['lines'] = h['lines'][-15:]
        # concrete playback for failures: re-run that harness alone
        for hname, h in res['harness'].items():
            if h['status'] == 'FAILURE':
                pp = subprocess.run(['cargo', 'kani', '--harness', hname, '--exact', '-Z', 'concrete-playback', '--concrete-playback=print'],
                                    cwd=tmp, env=env, stdout=subprocess.PIPE, stderr=subprocess.STDOUT, universal_newlines=True)
                mm2 = re.search(r'(#\[test\]\s*fn kani_concrete_playback[\s\S]*?\n\}\n)', pp.stdout)
                h['playback'] = mm2.group(1) if mm2 else ''
                h['failed_checks'] = '\n'.join(l for l in pp.stdout.split('\n') if 'Failed Checks' in l or 'FAILURE' in l)[:1500]
    finally:
        shutil.rmtree(tmp, ignore_errors=True)
    os.makedirs(cdir, exist_ok=True)
    with open(cpath, 'w') as fh:
        json.dump(res, fh)
    return _package(res, names, dropped)


def _package(res, names, dropped):
    hs = []
    for n in names:
        props, rel, fn = HARNESS_PROPS[n]
        h = res['harness'].get(n, {'status': 'MISSING', 'lines': []})
        witness = None
        if h.get('status') == 'FAILURE':
            witness = {'failed': bool(h.get('playback')), 'kani_concrete_playback': h.get('playback', ''), 'failed_checks': h.get('failed_checks', ''),
                       'note': 'values generated by Kani for the function text copied verbatim from /repo'}
        hs.append({'id': 'K1/%s/kani' % n, 'props': props, 'status': h.get('status'), 'fn': fn, 'file': rel, 'repo': rel,
                   'output': '\n'.join(h.get('lines', []))[-1500:], 'witness': witness})
    return {
        'harnesses': hs,
        'cmd': 'cargo kani (scratch crate: items copied verbatim from /repo + kani/k1_harness.rs; %s%s)' % (res.get('summary', ''), '; cached result for identical crate text' if res.get('cached') else ''),
        'trusted': ['K1: Kani 0.68 / CBMC; the scratch crate holds the repository items verbatim%s' % ('' if not dropped else ' except: ' + '; '.join(dropped))],
        'bounded': [],
        'solver_s': res.get('wall_s', 0.0),
        'run': type('R', (), {'name': 'K1'})(),
        'tail': res.get('tail', ''),
        'rc': res.get('rc'),
        'any_failure': any(h.get('status') == 'FAILURE' for h in res['harness'].values()),
    }


if __name__ == '__main__':
    import sys
    r = run(sys.argv[1] if len(sys.argv) > 1 else '/repo', ['C01', 'C02', 'C09', 'C15'], use_cache=False)
    for h in r['harnesses']:
        print(h['id'], h['status'])
    print(r['cmd'])
    if any(h['status'] != 'SUCCESS' for h in r['harnesses']):
        print(r['tail'])

#!/usr/bin/env python3
"""development helper: vx/dev.py <unit> [--emit file] [--fn name]  -> builds the unit, runs Verus, prints failures"""
import sys, os, json, subprocess, tempfile
sys.path.insert(0, os.path.dirname(os.path.abspath(__file__)))
import driver
name = sys.argv[1]
unit, data = driver.build(name)
if '--emit' in sys.argv:
    open(sys.argv[sys.argv.index('--emit') + 1], 'wb').write(data)
extra = []
if '--fn' in sys.argv:
    extra = ['--verify-root', '--verify-function', sys.argv[sys.argv.index('--fn') + 1]]
res = driver.run_verus(data, name, extra, False)
run = driver.UnitRun(name)
driver.classify(unit, data, res['diags'], run)
print('summary', {k: v for k, v in res['summary'].items() if k != 'function_times'}, 'wall %.1fs' % res['wall_s'])
for e in run.frontend_errors[:6]:
    print('FRONTEND', e[:1800])
for e in run.resource_errors[:6]:
    print('RESOURCE', e)
for f in run.failures:
    print('FAIL', f['id'], f['props'], f['repo'])
    if '-v' in sys.argv:
        print(f['rendered'][:1500])
if res['rc'] != 0 and not res['diags']:
    print(res.get('stderr_tail'))
slow = sorted(res['summary'].get('function_times', []), key=lambda x: -(x['ms'] or 0))[:5]
print('slowest', [(s['function'].split('::')[-1], s['ms']) for s in slow])
for l in unit.lost_aids: print('LOST AID', l)

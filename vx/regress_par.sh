#!/bin/bash
# vx/regress.sh with the entries spread over several workers (same checks, same verdict lines, order not preserved)
#   usage: vx/regress_par.sh [workers]   (default 4)
cd "$(dirname "$0")/.."
W=${1:-4}
one_seeded() {
  d=$1; id=$(basename $d)
  checks=$(python3 -c "import json;print(' '.join(json.load(open('$d/meta.json'))['checks_expected_to_catch']))")
  [ -z "$checks" ] && { echo "SEEDED $id: not replayed (undecided or obsolete, see its meta.json)"; return 0; }
  T=$(mktemp -d /tmp/verif-rg-XXXXXX); cp -r /repo/src $T/src
  if ! (cd $T && patch -p1 -s < /verif/$d/patch.diff >/dev/null 2>&1); then echo "SEEDED $id: patch does not apply"; rm -rf $T; return 0; fi
  for c in $checks; do
    VERIF_REPO=$T VERIF_OUT=$T/out ./check $c >/dev/null 2>&1; rc=$?
    if [ $rc -eq 1 ]; then echo "SEEDED $id $c: caught"; else echo "SEEDED $id $c: NOT caught (rc=$rc)"; fi
  done
  rm -rf $T
}
one_refactor() {
  p=$1
  T=$(mktemp -d /tmp/verif-rg-XXXXXX); cp -r /repo/src $T/src
  if ! (cd $T && patch -p1 -s < /verif/$p >/dev/null 2>&1); then echo "REFACTOR $p: patch does not apply"; rm -rf $T; return 0; fi
  res=""
  for c in $(python3 -c "import json;print(' '.join(sorted(json.load(open('contracts/index.json'))['properties'])))"); do
    VERIF_REPO=$T VERIF_OUT=$T/out ./check $c >/dev/null 2>&1; rc=$?
    if [ $rc -eq 1 ]; then res="$res $c:ALARM"; elif [ $rc -eq 2 ]; then res="$res $c:undecided"; fi
  done
  echo "REFACTOR $(basename $p):${res:- quiet}"
  rm -rf $T
}
export -f one_seeded one_refactor
ls -d seeded/*/ | xargs -P $W -I{} bash -c 'one_seeded {}'
ls refactors/*.diff | xargs -P $W -I{} bash -c 'one_refactor {}'

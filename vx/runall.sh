#!/bin/sh
# run every claimed check (quick tier) and summarise
cd "$(dirname "$0")/.."
for p in $(python3 -c "import json;print(' '.join(sorted(json.load(open('contracts/index.json'))['properties'])))"); do
  out=$(./check $p 2>&1); rc=$?
  echo "$p rc=$rc $(echo "$out" | grep -c '^KNOWN-FINDING') known | $(echo "$out" | grep -E '^OK|^VIOLATION|^UNDECIDED' | head -3 | tr '\n' ' ')"
done

#!/bin/bash
# usage: vx/tryrefactor.sh <patch.diff>   runs EVERY claimed check against a scratch copy with the (behaviour-preserving) change
P=$(readlink -f "$1")
T=$(mktemp -d /tmp/verif-rf-XXXXXX)
cp -r /repo/src $T/src
( cd $T && patch -p1 -s < "$P" ) || { echo "patch does not apply"; rm -rf $T; exit 3; }
cd /verif
for c in $(python3 -c "import json;print(' '.join(sorted(json.load(open('contracts/index.json'))['properties'])))"); do
  out=$(VERIF_REPO=$T VERIF_OUT=$T/out ./check $c 2>&1); rc=$?
  if [ $rc -ne 0 ]; then echo "  $c rc=$rc"; echo "$out" | grep -E "failed obligation|UNDECIDED|error" | head -4; fi
done
rm -rf $T

#!/bin/bash
# usage: vx/confirm_seeded.sh <dir with patch.diff and demo_*.rs> [scratch]
# confirms in a scratch copy of /repo (never in /repo): patch applies, the 215-test suite still passes with it,
# the demonstration fails with it and passes without it.  The scratch copy keeps a warm target dir.
set -u
D=$(cd "$1" && pwd); S=${2:-/tmp/replay}
demo=$(ls $D/demo_*.rs | head -1); name=$(basename $demo .rs)
export CARGO_NET_OFFLINE=true CARGO_TARGET_DIR=$S/target RUST_BACKTRACE=0 RUST_LOG=off
mkdir -p $S; rsync -rlc --delete /repo/src/ $S/src/; rsync -a /repo/Cargo.toml /repo/Cargo.lock $S/; mkdir -p $S/tests; touch $S/src/lib.rs
rsync -a /repo/tests/ $S/tests/
cp $demo $S/tests/$name.rs
cd $S
echo "--- demo on the unchanged tree"
timeout 900 cargo test --offline --test $name -- --test-threads=1 >$S/$name.orig.log 2>&1; r0=$?
grep -E "^test result|panicked" $S/$name.orig.log | head -5
patch -p1 -s < $D/patch.diff || { echo "PATCH DOES NOT APPLY"; exit 3; }
echo "--- demo with the change"
timeout 900 cargo test --offline --test $name -- --test-threads=1 >$S/$name.mut.log 2>&1; r1=$?
grep -E "^test result|panicked" $S/$name.mut.log | head -5
echo "--- suite with the change"
timeout 1800 cargo test --offline --lib --test test_server --test test_server_both --test test_server_v5 --no-fail-fast >$S/$name.suite.log 2>&1; r2=$?
grep -E "^test result" $S/$name.suite.log
rsync -rlc --delete /repo/src/ $S/src/; touch $S/src/lib.rs; rm -f $S/tests/$name.rs
echo "RESULT $name: demo_orig_rc=$r0 demo_mut_rc=$r1 suite_mut_rc=$r2"
[ $r0 -eq 0 ] && [ $r1 -ne 0 ] && [ $r2 -eq 0 ] && echo CONFIRMED || echo NOT-CONFIRMED

// Kani harnesses for the integer kernels that Verus takes as trusted (unsafe table lookups) and for the
// real `prim_enum!` macro expansion.  Appended to a scratch crate whose lib.rs holds the items extracted
// verbatim from /repo on every run (see vx/kani.py).  All harnesses are loop-free over the full input
// domain: complete proofs, not bounded ones.

/// MQTT variable byte integer: number of base-128 digits (written from the specification; total version)
#[cfg(kani)]
fn spec_varint_len(n: u128) -> u32 {
    if n < 128 { 1 } else if n < 16384 { 2 } else if n < 2097152 { 3 } else if n < 268435456 { 4 }
    else if n < 0x8_0000_0000 { 5 } else if n < 0x400_0000_0000 { 6 } else if n < 0x2_0000_0000_0000 { 7 }
    else if n < 0x100_0000_0000_0000 { 8 } else if n < 0x8000_0000_0000_0000 { 9 } else { 10 }
}

#[cfg(kani)]
#[kani::proof]
fn k1_var_int_len_u32_full_domain() {
    let v: u32 = kani::any();
    assert!(var_int_len_u32(v) == spec_varint_len(v as u128));
}

#[cfg(kani)]
#[kani::proof]
fn k1_var_int_len_usize_full_domain() {
    let v: usize = kani::any();
    assert!(var_int_len(v) == spec_varint_len(v as u128));
}

#[cfg(kani)]
#[kani::proof]
fn k1_var_int_len_from_size_inverse() {
    // for every body length len < 2^28: from_size(len + varint_len(len)) == len
    let len: u32 = kani::any();
    kani::assume(len < 268_435_456);
    let total = len + spec_varint_len(len as u128);
    assert!(var_int_len_from_size(total) == len);
}

#[cfg(kani)]
#[kani::proof]
fn k1_reduce_limit_saturates() {
    let limit: u32 = kani::any();
    let red: usize = kani::any();
    let r = reduce_limit(limit, red);
    if red > limit as usize { assert!(r == 0); } else { assert!(r as usize == limit as usize - red); }
}

// ---- real prim_enum! expansion: TryFrom<u8> accepts exactly the code set of the MQTT specification and
// ---- From<enum> for u8 (a transmute) is its inverse, for all 256 bytes ----
#[cfg(kani)]
macro_rules! enum_roundtrip {
    ($name:ident, $ty:ident, [$($code:expr),*]) => {
        #[kani::proof]
        fn $name() {
            let v: u8 = kani::any();
            let in_spec = false $(|| v == $code)*;
            match $ty::try_from(v) {
                Ok(e) => { assert!(in_spec); assert!(u8::from(e) == v); }
                Err(_) => { assert!(!in_spec); }
            }
        }
    };
}
#[cfg(kani)] enum_roundtrip!(k1_enum_qos, QoS, [0, 1, 2]);
#[cfg(kani)] enum_roundtrip!(k1_enum_connack_reason_v3, ConnectAckReasonV3, [0, 1, 2, 3, 4, 5, 6]);
#[cfg(kani)] enum_roundtrip!(k1_enum_puback_reason, PublishAckReason, [0x00, 0x10, 0x80, 0x83, 0x87, 0x90, 0x91, 0x97, 0x99]);
#[cfg(kani)] enum_roundtrip!(k1_enum_pubrel_reason, PublishAck2Reason, [0x00, 0x92]);
#[cfg(kani)] enum_roundtrip!(k1_enum_retain_handling, RetainHandling, [0, 1, 2]);
#[cfg(kani)] enum_roundtrip!(k1_enum_suback_reason, SubscribeAckReason, [0x00, 0x01, 0x02, 0x80, 0x83, 0x87, 0x8F, 0x91, 0x97, 0x9E, 0xA1, 0xA2]);
#[cfg(kani)] enum_roundtrip!(k1_enum_unsuback_reason, UnsubscribeAckReason, [0x00, 0x11, 0x80, 0x83, 0x87, 0x8F, 0x91]);
#[cfg(kani)] enum_roundtrip!(k1_enum_auth_reason, AuthReasonCode, [0x00, 0x18, 0x19]);
#[cfg(kani)] enum_roundtrip!(k1_enum_disconnect_reason, DisconnectReasonCode, [0x00, 0x04, 0x80, 0x81, 0x82, 0x83, 0x87, 0x89, 0x8B, 0x8C, 0x8D, 0x8E, 0x8F, 0x90, 0x93, 0x94, 0x95, 0x96, 0x97, 0x98, 0x99, 0x9A, 0x9B, 0x9C, 0x9D, 0x9E, 0x9F, 0xA0, 0xA1, 0xA2]);
#[cfg(kani)] enum_roundtrip!(k1_enum_connack_reason_v5, ConnectAckReason, [0x00, 0x80, 0x81, 0x82, 0x83, 0x84, 0x85, 0x86, 0x87, 0x88, 0x89, 0x8A, 0x8C, 0x90, 0x95, 0x97, 0x99, 0x9A, 0x9B, 0x9C, 0x9D, 0x9F]);

//! D17 (C16): a peer must not be able to panic the dispatcher with a stray payload chunk.
//!
//! src/v3/client/dispatcher.rs and src/v5/client/dispatcher.rs handle
//! `Decoded::PayloadChunk` with `..payload.take().unwrap()`. The codec emits
//! `PayloadChunk`s for every PUBLISH whose payload did not arrive with the header, whether
//! or not the dispatcher stored a payload sender for that PUBLISH.
//!
//! Peer script (raw Io + codec, the same for every scenario):
//!   1. PUBLISH QoS1 id=1, empty payload          (the handler sleeps 600 ms)
//!   2. 50 ms later PUBLISH QoS1 id=<second>, payload_size 1000, only the first 100 bytes
//!   3. 100 ms later 400 more payload bytes, 50 ms later the last 500 bytes
//!   4. read answers until close / 1.5 s of silence
//!
//! Scenarios
//!   * v5 client, second id = 1 (still in use): the Publish arm answers
//!     PUBACK PacketIdentifierInUse and returns `Ok(None)` *before* the sender is stored.
//!   * v5 client, Receive Maximum 1, second id = 2: `Err(Pub_3_3_4_9)`.
//!   * v3 client, second id = 1: `Err(PacketId_2_2_1_3_Pub)`.
//!   * controls: distinct ids (large publish is delivered, handler reads 1000 bytes);
//!     v5 *server* dispatcher with second id = 1 (it has `else { Err(UnexpectedPayload) }`).
//!
//! Expected: no panic. Either the chunks of the refused PUBLISH are skipped or the
//! connection ends with a protocol error.
//!
//! Harness: a panic in a task of the ntex runtime may take the whole process down, so
//! every scenario runs in a child process (this test binary re-executed with
//! `D17_CHILD=<test name>`); the parent prints the child's PROBE lines, its panic
//! message / location and its exit status, and asserts on them.
use std::future::Future;
use std::num::NonZeroU16;
use std::process::Command;
use std::sync::{Arc, Mutex};

use ntex::io::Io;
use ntex::server;
use ntex::service::{ServiceFactory, cfg::SharedCfg, fn_service};
use ntex::time::{Millis, sleep, timeout};
use ntex::util::{ByteString, Bytes};

fn block_on<F: Future + 'static>(name: &str, f: F) -> F::Output
where
    F::Output: 'static,
{
    ntex::rt::System::build().name(name).testing().build(ntex::rt::DefaultRuntime).block_on(f)
}

type Log = Arc<Mutex<Vec<String>>>;

fn push(log: &Log, s: String) {
    println!("PROBE peer: {}", s);
    log.lock().unwrap().push(s);
}

// ---------------------------------------------------------------------------------------
// parent / child plumbing

struct ChildOut {
    status: String,
    success: bool,
    probes: Vec<String>,
    panics: Vec<String>,
}

/// Returns `None` in the child (after running `scenario`), `Some(..)` in the parent.
fn harness(test_name: &str, scenario: fn()) -> Option<ChildOut> {
    if std::env::var("D17_CHILD").as_deref() == Ok(test_name) {
        // child: report panics on stdout (flushed line by line), watchdog against hangs
        let prev = std::panic::take_hook();
        std::panic::set_hook(Box::new(move |info| {
            let loc = info.location().map(|l| format!("{}:{}:{}", l.file(), l.line(), l.column()));
            println!(
                "PROBE PANIC in thread {:?} at {}: {}",
                std::thread::current().name().unwrap_or("?"),
                loc.unwrap_or_default(),
                info.payload_as_str().unwrap_or("<non-string payload>")
            );
            prev(info);
        }));
        std::thread::spawn(|| {
            std::thread::sleep(std::time::Duration::from_secs(25));
            println!("PROBE child watchdog fired (scenario hung)");
            std::process::exit(3);
        });
        scenario();
        println!("PROBE child scenario returned normally");
        return None;
    }

    let out = Command::new(std::env::current_exe().unwrap())
        .args(["--exact", test_name, "--nocapture", "--test-threads=1"])
        .env("D17_CHILD", test_name)
        .env("RUST_BACKTRACE", "0")
        .output()
        .unwrap();
    let stdout = String::from_utf8_lossy(&out.stdout).to_string();
    let stderr = String::from_utf8_lossy(&out.stderr).to_string();
    let probes: Vec<String> = stdout
        .lines()
        .filter_map(|l| l.find("PROBE").map(|i| l[i..].to_string()))
        .collect();
    let mut panics = Vec::new();
    let lines: Vec<&str> = stderr.lines().collect();
    for (i, l) in lines.iter().enumerate() {
        if l.contains("panicked at") || l.contains("abort") || l.contains("fatal runtime error") {
            let next = lines.get(i + 1).copied().unwrap_or("");
            panics.push(format!("{} | {}", l.trim(), next.trim()));
        }
    }
    for p in &probes {
        println!("  child> {}", p);
    }
    for p in &panics {
        println!("  child stderr> {}", p);
    }
    let status = format!("{:?}", out.status);
    println!("  child exit status: {}", status);
    Some(ChildOut { status, success: out.status.success(), probes, panics })
}

fn result_line(out: &ChildOut) -> String {
    out.probes.iter().find(|l| l.starts_with("PROBE-RESULT")).cloned().unwrap_or_default()
}

fn check_no_panic(what: &str, out: &ChildOut) {
    let panic_probe: Vec<&String> =
        out.probes.iter().filter(|l| l.starts_with("PROBE PANIC")).collect();
    println!(
        "PROBE-RESULT {}: child status={} panics={:?} | {}",
        what,
        out.status,
        panic_probe,
        result_line(out)
    );
    assert!(panic_probe.is_empty() && out.panics.is_empty(), "{}: panic: {:?} {:?}", what, panic_probe, out.panics);
    assert!(out.success, "{}: child failed: {}", what, out.status);
}

// ---------------------------------------------------------------------------------------
// MQTT 5

mod t5 {
    use super::*;
    use ntex_mqtt::v5::codec::{self, Decoded, Encoded, Packet};
    use ntex_mqtt::v5::{self, Handshake, HandshakeAck, MqttServer, PublishAck, QoS, client};

    pub struct St;

    #[derive(Debug)]
    pub struct TestError;

    impl From<()> for TestError {
        fn from(_: ()) -> Self {
            TestError
        }
    }

    impl TryFrom<TestError> for PublishAck {
        type Error = TestError;

        fn try_from(err: TestError) -> Result<Self, Self::Error> {
            Err(err)
        }
    }

    fn publish(id: u16, payload_size: u32) -> codec::Publish {
        codec::Publish {
            dup: false,
            retain: false,
            qos: QoS::AtLeastOnce,
            topic: ByteString::from("test"),
            packet_id: NonZeroU16::new(id),
            payload_size,
            properties: Default::default(),
        }
    }

    async fn recv(io: &Io, codec: &codec::Codec) -> String {
        match timeout(Millis(1500), io.recv(codec)).await {
            Ok(Ok(Some(Decoded::Packet(Packet::PublishAck(a), _)))) => {
                format!("PUBACK id={} {:?}", a.packet_id, a.reason_code)
            }
            Ok(Ok(Some(Decoded::Packet(Packet::Disconnect(a), _)))) => {
                format!("DISCONNECT {:?} {:?}", a.reason_code, a.reason_string)
            }
            Ok(Ok(Some(other))) => format!("{:?}", other),
            Ok(Ok(None)) => "connection closed".to_string(),
            Ok(Err(e)) => format!("error {:?}", e),
            Err(_) => "timeout (1.5 s of silence, connection still open)".to_string(),
        }
    }

    /// the peer script of the module documentation
    pub async fn peer_script(io: &Io, codec: &codec::Codec, second_id: u16, log: &Log) {
        let r = io.send(Encoded::Publish(publish(1, 0), Some(Bytes::new())), codec).await;
        println!("PROBE peer: sent PUBLISH qos1 id=1 (empty) -> {:?}", r.is_ok());
        sleep(Millis(50)).await;
        let r = io
            .send(
                Encoded::Publish(publish(second_id, 1000), Some(Bytes::from(vec![b'A'; 100]))),
                codec,
            )
            .await;
        println!(
            "PROBE peer: sent PUBLISH qos1 id={} payload_size=1000, first 100 bytes -> {:?}",
            second_id,
            r.is_ok()
        );
        sleep(Millis(100)).await;
        let r = io.send(Encoded::PayloadChunk(Bytes::from(vec![b'B'; 400])), codec).await;
        println!("PROBE peer: sent 400 payload bytes -> {:?}", r.is_ok());
        sleep(Millis(50)).await;
        let r = io.send(Encoded::PayloadChunk(Bytes::from(vec![b'C'; 500])), codec).await;
        println!("PROBE peer: sent last 500 payload bytes -> {:?}", r.is_ok());

        for _ in 0..4 {
            let r = recv(io, codec).await;
            let stop = r.starts_with("connection closed")
                || r.starts_with("error")
                || r.starts_with("timeout");
            push(log, r);
            if stop {
                break;
            }
        }
    }

    async fn handler(pkt: v5::Publish) -> Result<PublishAck, TestError> {
        println!(
            "PROBE handler: PUBLISH id={:?} payload_size={}",
            pkt.id(),
            pkt.payload_size()
        );
        if pkt.payload_size() == 0 {
            sleep(Millis(600)).await;
        } else {
            let r = pkt.read_all().await;
            println!("PROBE handler: id={:?} read_all -> {:?}", pkt.id(), r.map(|b| b.len()));
        }
        println!("PROBE handler: id={:?} done", pkt.id());
        Ok(pkt.ack())
    }

    /// raw server vs real v5 client. `receive_max` 0 = default.
    pub async fn client_scenario(second_id: u16, receive_max: u16) {
        let log: Log = Arc::new(Mutex::new(Vec::new()));
        let done: Arc<Mutex<bool>> = Arc::new(Mutex::new(false));
        let (log2, done2) = (log.clone(), done.clone());

        let srv = server::test_server(async move || {
            let (log, done) = (log2.clone(), done2.clone());
            fn_service(move |io: Io| {
                let (log, done) = (log.clone(), done.clone());
                async move {
                    let codec = codec::Codec::new();
                    let c = io.recv(&codec).await;
                    assert!(
                        matches!(c, Ok(Some(Decoded::Packet(Packet::Connect(_), _)))),
                        "{:?}",
                        c
                    );
                    io.send(Encoded::Packet(Packet::ConnectAck(Box::default())), &codec)
                        .await
                        .unwrap();
                    peer_script(&io, &codec, second_id, &log).await;
                    *done.lock().unwrap() = true;
                    Ok::<_, ()>(())
                }
            })
        });

        let mut connect = client::Connect::new(srv.addr()).client_id("user");
        if receive_max != 0 {
            connect = connect.max_receive(receive_max);
        }
        let client = client::MqttConnector::new()
            .pipeline(SharedCfg::default())
            .await
            .unwrap()
            .call(connect)
            .await
            .unwrap();
        let sink = client.sink();

        let router = client.resource("test", handler);
        ntex::rt::spawn(async move {
            router.start_default().await;
            println!("PROBE client: dispatcher future finished");
        });

        for _ in 0..80 {
            if *done.lock().unwrap() {
                break;
            }
            sleep(Millis(100)).await;
        }
        println!("PROBE client: sink.is_open() = {}", sink.is_open());
        println!("PROBE-RESULT peer saw: {:?}", log.lock().unwrap());
        drop(srv);
        sleep(Millis(50)).await;
    }

    async fn handshake(packet: Handshake) -> Result<HandshakeAck<St>, TestError> {
        Ok(packet.ack(St))
    }

    /// raw client vs real v5 server (control)
    pub async fn server_scenario(second_id: u16) {
        let srv = server::test_server(async move || MqttServer::new(handshake).publish(handler));
        let io = srv.connect().await.unwrap();
        let codec = codec::Codec::new();
        io.send(Encoded::Packet(codec::Connect::default().client_id("user").into()), &codec)
            .await
            .unwrap();
        let _ = io.recv(&codec).await.unwrap().unwrap();

        let log: Log = Arc::new(Mutex::new(Vec::new()));
        peer_script(&io, &codec, second_id, &log).await;
        println!("PROBE-RESULT peer saw: {:?}", log.lock().unwrap());
        drop(io);
        drop(srv);
        sleep(Millis(50)).await;
    }
}

// ---------------------------------------------------------------------------------------
// MQTT 3.1.1

mod t3 {
    use super::*;
    use ntex_mqtt::v3::codec::{self, Decoded, Encoded, Packet};
    use ntex_mqtt::v3::{self, QoS, client};

    fn publish(id: u16, payload_size: u32) -> codec::Publish {
        codec::Publish {
            dup: false,
            retain: false,
            qos: QoS::AtLeastOnce,
            topic: ByteString::from("test"),
            packet_id: NonZeroU16::new(id),
            payload_size,
        }
    }

    async fn recv(io: &Io, codec: &codec::Codec) -> String {
        match timeout(Millis(1500), io.recv(codec)).await {
            Ok(Ok(Some(Decoded::Packet(Packet::PublishAck { packet_id }, _)))) => {
                format!("PUBACK id={}", packet_id)
            }
            Ok(Ok(Some(Decoded::Packet(p, _)))) => format!("{:?}", p),
            Ok(Ok(Some(other))) => format!("{:?}", other),
            Ok(Ok(None)) => "connection closed".to_string(),
            Ok(Err(e)) => format!("error {:?}", e),
            Err(_) => "timeout (1.5 s of silence, connection still open)".to_string(),
        }
    }

    async fn peer_script(io: &Io, codec: &codec::Codec, second_id: u16, log: &Log) {
        let r = io.send(Encoded::Publish(publish(1, 0), Some(Bytes::new())), codec).await;
        println!("PROBE peer: sent PUBLISH qos1 id=1 (empty) -> {:?}", r.is_ok());
        sleep(Millis(50)).await;
        let r = io
            .send(
                Encoded::Publish(publish(second_id, 1000), Some(Bytes::from(vec![b'A'; 100]))),
                codec,
            )
            .await;
        println!(
            "PROBE peer: sent PUBLISH qos1 id={} payload_size=1000, first 100 bytes -> {:?}",
            second_id,
            r.is_ok()
        );
        sleep(Millis(100)).await;
        let r = io.send(Encoded::PayloadChunk(Bytes::from(vec![b'B'; 400])), codec).await;
        println!("PROBE peer: sent 400 payload bytes -> {:?}", r.is_ok());
        sleep(Millis(50)).await;
        let r = io.send(Encoded::PayloadChunk(Bytes::from(vec![b'C'; 500])), codec).await;
        println!("PROBE peer: sent last 500 payload bytes -> {:?}", r.is_ok());

        for _ in 0..4 {
            let r = recv(io, codec).await;
            let stop = r.starts_with("connection closed")
                || r.starts_with("error")
                || r.starts_with("timeout");
            push(log, r);
            if stop {
                break;
            }
        }
    }

    async fn handler(pkt: v3::Publish) -> Result<(), ()> {
        println!(
            "PROBE handler: PUBLISH id={:?} payload_size={}",
            pkt.id(),
            pkt.payload_size()
        );
        if pkt.payload_size() == 0 {
            sleep(Millis(600)).await;
        } else {
            let r = pkt.read_all().await;
            println!("PROBE handler: id={:?} read_all -> {:?}", pkt.id(), r.map(|b| b.len()));
        }
        println!("PROBE handler: id={:?} done", pkt.id());
        Ok(())
    }

    pub async fn client_scenario(second_id: u16) {
        let log: Log = Arc::new(Mutex::new(Vec::new()));
        let done: Arc<Mutex<bool>> = Arc::new(Mutex::new(false));
        let (log2, done2) = (log.clone(), done.clone());

        let srv = server::test_server(async move || {
            let (log, done) = (log2.clone(), done2.clone());
            fn_service(move |io: Io| {
                let (log, done) = (log.clone(), done.clone());
                async move {
                    let codec = codec::Codec::new();
                    let c = io.recv(&codec).await;
                    assert!(
                        matches!(c, Ok(Some(Decoded::Packet(Packet::Connect(_), _)))),
                        "{:?}",
                        c
                    );
                    io.send(
                        Encoded::Packet(Packet::ConnectAck(codec::ConnectAck {
                            return_code: codec::ConnectAckReason::ConnectionAccepted,
                            session_present: false,
                        })),
                        &codec,
                    )
                    .await
                    .unwrap();
                    peer_script(&io, &codec, second_id, &log).await;
                    *done.lock().unwrap() = true;
                    Ok::<_, ()>(())
                }
            })
        });

        let client = client::MqttConnector::new()
            .pipeline(SharedCfg::default())
            .await
            .unwrap()
            .call(client::Connect::new(srv.addr()).client_id("user"))
            .await
            .unwrap();
        let sink = client.sink();

        let router = client.resource("test", handler);
        ntex::rt::spawn(async move {
            router.start_default().await;
            println!("PROBE client: dispatcher future finished");
        });

        for _ in 0..80 {
            if *done.lock().unwrap() {
                break;
            }
            sleep(Millis(100)).await;
        }
        println!("PROBE client: sink.is_open() = {}", sink.is_open());
        println!("PROBE-RESULT peer saw: {:?}", log.lock().unwrap());
        drop(srv);
        sleep(Millis(50)).await;
    }
}

// ---------------------------------------------------------------------------------------
// controls: the chunking harness works, distinct ids are delivered

#[test]
fn d17_control_v5_client_distinct_ids() {
    let Some(out) = harness("d17_control_v5_client_distinct_ids", || {
        block_on("d17", t5::client_scenario(2, 0))
    }) else {
        return;
    };
    check_no_panic("v5 client, ids 1 and 2 (control)", &out);
    let res = result_line(&out);
    assert!(res.contains("PUBACK id=1 Success") && res.contains("PUBACK id=2 Success"), "{}", res);
    assert!(out.probes.iter().any(|l| l.contains("id=Some(2) read_all -> Ok(1000)")));
}

#[test]
fn d17_control_v3_client_distinct_ids() {
    let Some(out) = harness("d17_control_v3_client_distinct_ids", || {
        block_on("d17", t3::client_scenario(2))
    }) else {
        return;
    };
    check_no_panic("v3 client, ids 1 and 2 (control)", &out);
    let res = result_line(&out);
    assert!(res.contains("PUBACK id=1") && res.contains("PUBACK id=2"), "{}", res);
    assert!(out.probes.iter().any(|l| l.contains("id=Some(2) read_all -> Ok(1000)")));
}

#[test]
fn d17_control_v5_server_duplicate_id_large_publish() {
    let Some(out) = harness("d17_control_v5_server_duplicate_id_large_publish", || {
        block_on("d17", t5::server_scenario(1))
    }) else {
        return;
    };
    check_no_panic("v5 SERVER, large PUBLISH with id in use (control)", &out);
}

// ---------------------------------------------------------------------------------------
// the suspected defect

#[test]
fn d17_v5_client_duplicate_id_large_publish() {
    let Some(out) = harness("d17_v5_client_duplicate_id_large_publish", || {
        block_on("d17", t5::client_scenario(1, 0))
    }) else {
        return;
    };
    check_no_panic("v5 client, large PUBLISH with id in use", &out);
}

#[test]
fn d17_v5_client_receive_max_large_publish() {
    let Some(out) = harness("d17_v5_client_receive_max_large_publish", || {
        block_on("d17", t5::client_scenario(2, 1))
    }) else {
        return;
    };
    check_no_panic("v5 client, Receive Maximum 1, large second PUBLISH", &out);
}

#[test]
fn d17_v3_client_duplicate_id_large_publish() {
    let Some(out) = harness("d17_v3_client_duplicate_id_large_publish", || {
        block_on("d17", t3::client_scenario(1))
    }) else {
        return;
    };
    check_no_panic("v3 client, large PUBLISH with id in use", &out);
}

//! D14 (C14), MQTT 3.1.1 port of `/verif/probes/dyn/c14_qos2_concurrent.rs`:
//! two concurrent QoS2 publishes on one sink.
//!
//! `MqttSharedQueues.rx` is a single slot: every PUBREC stores the receiver for
//! the coming PUBCOMP there (`queues.rx = Some(rx)` in `pkt_ack_inner`), so the
//! second PUBREC overwrites (drops) the first one, and `release_publish(id)`
//! takes whatever is in the slot regardless of `id`.
//!
//! Scenario: two `send_exactly_once` in flight (window 4), the peer sends PUBREC
//! for both, in order, and answers every PUBREL with PUBCOMP.
//! Correct behaviour: both `release()` calls complete with `Ok(())` and the peer
//! sees PUBREL 1 and PUBREL 2.
//! Suspected: `release()` #1 never completes, #2 returns `UnexpectedRelease` and
//! its PUBREL is never sent.
use std::future::Future;
use std::sync::{Arc, Mutex};

use ntex::server;
use ntex::time::{Millis, sleep, timeout};
use ntex::util::{ByteString, Bytes, Ready};

use ntex_mqtt::v3::codec::{self, Decoded, Encoded, Packet};
use ntex_mqtt::v3::{Handshake, MqttServer};

struct St;

fn block_on<F: Future + 'static>(name: &str, f: F) -> F::Output
where
    F::Output: 'static,
{
    ntex::rt::System::build().name(name).testing().build(ntex::rt::DefaultRuntime).block_on(f)
}

#[derive(Debug, Default, Clone)]
struct Out {
    received: Option<String>,
    release1: Option<String>,
    release2: Option<String>,
    credit_end: Option<usize>,
    is_open_end: Option<bool>,
    peer: Vec<String>,
}

/// `concurrent`: both publishes in flight at the same time (scenario), otherwise
/// the second exchange starts after the first completed (control).
async fn run(concurrent: bool) -> Out {
    let out: Arc<Mutex<Out>> = Arc::new(Mutex::new(Out::default()));
    let out2 = out.clone();

    let srv = server::test_server(async move || {
        let out = out2.clone();
        MqttServer::new(move |con: Handshake| {
            let sink = con.sink();
            let out = out.clone();
            ntex::rt::spawn(async move {
                sleep(Millis(100)).await;
                if concurrent {
                    let f1 = sink
                        .publish(ByteString::from_static("t1"))
                        .send_exactly_once(Bytes::new());
                    let f2 = sink
                        .publish(ByteString::from_static("t2"))
                        .send_exactly_once(Bytes::new());
                    let (r1, r2) =
                        ntex::util::join(timeout(Millis(2000), f1), timeout(Millis(2000), f2))
                            .await;
                    println!("PROBE PUBREC received: {:?} {:?}", r1, r2);
                    out.lock().unwrap().received = Some(format!("{:?} {:?}", r1, r2));
                    let (Ok(Ok(r1)), Ok(Ok(r2))) = (r1, r2) else { return };
                    let a = timeout(Millis(1500), r1.release()).await;
                    println!("PROBE-RESULT release #1 -> {:?}", a);
                    out.lock().unwrap().release1 = Some(format!("{:?}", a));
                    let b = timeout(Millis(1500), r2.release()).await;
                    println!("PROBE-RESULT release #2 -> {:?}", b);
                    out.lock().unwrap().release2 = Some(format!("{:?}", b));
                } else {
                    let r1 = timeout(
                        Millis(2000),
                        sink.publish(ByteString::from_static("t1")).send_exactly_once(Bytes::new()),
                    )
                    .await;
                    let Ok(Ok(r1)) = r1 else { return };
                    let a = timeout(Millis(1500), r1.release()).await;
                    println!("PROBE-RESULT release #1 -> {:?}", a);
                    out.lock().unwrap().release1 = Some(format!("{:?}", a));
                    let r2 = timeout(
                        Millis(2000),
                        sink.publish(ByteString::from_static("t2")).send_exactly_once(Bytes::new()),
                    )
                    .await;
                    let Ok(Ok(r2)) = r2 else { return };
                    let b = timeout(Millis(1500), r2.release()).await;
                    println!("PROBE-RESULT release #2 -> {:?}", b);
                    out.lock().unwrap().release2 = Some(format!("{:?}", b));
                }
                sleep(Millis(100)).await;
                let mut o = out.lock().unwrap();
                o.credit_end = Some(sink.credit());
                o.is_open_end = Some(sink.is_open());
                println!("PROBE end: credit={} is_open={}", sink.credit(), sink.is_open());
            });
            Ready::Ok::<_, ()>(con.ack(St, false).max_send(Some(4)))
        })
        .publish(|_| Ready::Ok::<_, ()>(()))
    });

    let io = srv.connect().await.unwrap();
    let codec = codec::Codec::new();
    io.send(Encoded::Packet(codec::Connect::default().client_id("user").into()), &codec)
        .await
        .unwrap();
    let _ = io.recv(&codec).await.unwrap().unwrap();

    // PUBLISH -> PUBREC (for the concurrent run: first collect both, then PUBREC both in order)
    // PUBREL  -> PUBCOMP
    let log = |s: String| {
        println!("PROBE peer: {}", s);
        out.lock().unwrap().peer.push(s);
    };
    let mut held = Vec::new();
    loop {
        match timeout(Millis(2500), io.recv(&codec)).await {
            Ok(Ok(Some(Decoded::Publish(p, _, _)))) => {
                let id = p.packet_id.unwrap();
                log(format!("PUBLISH id={} qos={:?}", id, p.qos));
                held.push(id);
                if !concurrent || held.len() == 2 {
                    for id in held.drain(..) {
                        log(format!("-> PUBREC id={}", id));
                        io.send(Encoded::Packet(Packet::PublishReceived { packet_id: id }), &codec)
                            .await
                            .unwrap();
                    }
                }
            }
            Ok(Ok(Some(Decoded::Packet(Packet::PublishRelease { packet_id }, _)))) => {
                log(format!("PUBREL id={} -> PUBCOMP id={}", packet_id, packet_id));
                io.send(Encoded::Packet(Packet::PublishComplete { packet_id }), &codec)
                    .await
                    .unwrap();
            }
            Ok(Ok(Some(other))) => log(format!("{:?}", other)),
            Ok(Ok(None)) => {
                log("connection closed by server".into());
                break;
            }
            Ok(Err(e)) => {
                log(format!("recv error {:?}", e));
                break;
            }
            Err(_) => {
                log("silent for 2.5s".into());
                break;
            }
        }
        if out.lock().unwrap().credit_end.is_some() {
            break;
        }
    }
    for _ in 0..30 {
        if out.lock().unwrap().credit_end.is_some() {
            break;
        }
        sleep(Millis(100)).await;
    }
    drop(io);
    drop(srv);
    sleep(Millis(50)).await;
    let res = out.lock().unwrap().clone();
    println!("PROBE-RESULT concurrent={} -> {:?}", concurrent, res);
    res
}

fn check(res: &Out) {
    assert_eq!(res.release1.as_deref(), Some("Ok(Ok(()))"), "release #1");
    assert_eq!(res.release2.as_deref(), Some("Ok(Ok(()))"), "release #2");
    assert!(res.peer.iter().any(|s| s.starts_with("PUBREL id=1")), "peer never saw PUBREL 1");
    assert!(res.peer.iter().any(|s| s.starts_with("PUBREL id=2")), "peer never saw PUBREL 2");
    assert_eq!(res.credit_end, Some(4), "window not restored");
}

#[test]
fn d14_v3_qos2_control_sequential() {
    let res = block_on("d14_v3_q_c", run(false));
    check(&res);
}

#[test]
fn d14_v3_qos2_concurrent() {
    let res = block_on("d14_v3_q", run(true));
    check(&res);
}

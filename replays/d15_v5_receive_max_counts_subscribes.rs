//! D15 (C12): MQTT 5 server, Receive Maximum must only count inbound QoS1/2 PUBLISH
//! packets that have not been acknowledged yet (MQTT 5 3.3.4: "PUBLISH packets ... for
//! which it has not received PUBACK / PUBCOMP"). SUBSCRIBE / UNSUBSCRIBE are not subject
//! to flow control (4.9).
//!
//! Suspected (src/v5/dispatcher.rs): `PublishInfo.inflight` holds the ids of pending
//! PUBLISH *and* of SUBSCRIBE / UNSUBSCRIBE whose handler has not answered yet; the
//! Publish arm checks `inner.inflight.len() >= receive_max`.
//!
//! Server: Receive Maximum 2, protocol handler answers SUBSCRIBE / UNSUBSCRIBE after
//! 300 ms, publish handler answers after 300 ms.
//!
//! * `one_subscribe_two_publishes`: SUBSCRIBE id=10, PUBLISH QoS1 id=1, PUBLISH QoS1 id=2
//!   (2 unacknowledged PUBLISH = within the limit). Expected PUBACK 1, PUBACK 2, SUBACK 10.
//! * `two_subscribes_one_publish`: SUBSCRIBE id=10, SUBSCRIBE id=11, PUBLISH QoS1 id=1
//!   (1 unacknowledged PUBLISH). Expected PUBACK 1, SUBACK 10, SUBACK 11.
//! * `two_unsubscribes_one_publish`: same with UNSUBSCRIBE.
//! * control `three_publishes`: PUBLISH 1, 2, 3 -> DISCONNECT ReceiveMaximumExceeded
//!   (the limit itself is enforced), and `two_publishes` -> PUBACK 1, PUBACK 2.
use std::future::Future;
use std::num::NonZeroU16;

use ntex::io::Io;
use ntex::server;
use ntex::service::cfg::SharedCfg;
use ntex::time::{Millis, sleep, timeout};
use ntex::util::ByteString;

use ntex_mqtt::v5::codec::{self, Decoded, Encoded, Packet};
use ntex_mqtt::v5::{Handshake, HandshakeAck, MqttServer, ProtocolMessage, Publish, PublishAck};
use ntex_mqtt::{MqttServiceConfig, QoS};

fn block_on<F: Future + 'static>(name: &str, f: F) -> F::Output
where
    F::Output: 'static,
{
    ntex::rt::System::build().name(name).testing().build(ntex::rt::DefaultRuntime).block_on(f)
}

struct St;

#[derive(Debug)]
struct TestError;

impl From<()> for TestError {
    fn from(_: ()) -> Self {
        TestError
    }
}

impl TryFrom<TestError> for PublishAck {
    type Error = TestError;

    fn try_from(err: TestError) -> Result<Self, Self::Error> {
        Err(err)
    }
}

async fn handshake(packet: Handshake) -> Result<HandshakeAck<St>, TestError> {
    Ok(packet.ack(St))
}

#[derive(Clone, Copy, Debug)]
enum Step {
    Sub(u16),
    Unsub(u16),
    Pub(u16),
}

fn to_packet(step: Step) -> Encoded {
    match step {
        Step::Sub(id) => Encoded::Packet(Packet::Subscribe(codec::Subscribe {
            id: None,
            packet_id: NonZeroU16::new(id).unwrap(),
            user_properties: Default::default(),
            topic_filters: vec![(
                ByteString::from("topic1"),
                codec::SubscriptionOptions {
                    qos: QoS::AtLeastOnce,
                    no_local: false,
                    retain_as_published: false,
                    retain_handling: codec::RetainHandling::AtSubscribe,
                },
            )],
        })),
        Step::Unsub(id) => Encoded::Packet(Packet::Unsubscribe(codec::Unsubscribe {
            packet_id: NonZeroU16::new(id).unwrap(),
            user_properties: Default::default(),
            topic_filters: vec![ByteString::from("topic1")],
        })),
        Step::Pub(id) => Encoded::Publish(
            codec::Publish {
                dup: false,
                retain: false,
                qos: QoS::AtLeastOnce,
                topic: ByteString::from("test"),
                packet_id: NonZeroU16::new(id),
                payload_size: 0,
                properties: Default::default(),
            },
            None,
        ),
    }
}

async fn recv(io: &Io, codec: &codec::Codec) -> String {
    match timeout(Millis(2500), io.recv(codec)).await {
        Ok(Ok(Some(Decoded::Packet(Packet::PublishAck(a), _)))) => {
            format!("PUBACK id={} {:?}", a.packet_id, a.reason_code)
        }
        Ok(Ok(Some(Decoded::Packet(Packet::SubscribeAck(a), _)))) => {
            format!("SUBACK id={} {:?}", a.packet_id, a.status)
        }
        Ok(Ok(Some(Decoded::Packet(Packet::UnsubscribeAck(a), _)))) => {
            format!("UNSUBACK id={} {:?}", a.packet_id, a.status)
        }
        Ok(Ok(Some(Decoded::Packet(Packet::Disconnect(a), _)))) => {
            format!("DISCONNECT {:?} {:?}", a.reason_code, a.reason_string)
        }
        Ok(Ok(Some(other))) => format!("{:?}", other),
        Ok(Ok(None)) => "connection closed".to_string(),
        Ok(Err(e)) => format!("error {:?}", e),
        Err(_) => "timeout".to_string(),
    }
}

/// Sends all `steps` back to back and collects up to `steps.len()` answers
/// (stops at DISCONNECT / close / timeout).
async fn run(name: &'static str, receive_max: u16, steps: Vec<Step>) -> Vec<String> {
    let srv = server::TestServerBuilder::new(async move || {
        MqttServer::new(handshake)
            .protocol(async move |msg| match msg {
                ProtocolMessage::Subscribe(mut msg) => {
                    println!("PROBE {} server: SUBSCRIBE handler start", name);
                    sleep(Millis(300)).await;
                    for mut sub in &mut msg {
                        sub.subscribe(QoS::AtLeastOnce);
                    }
                    println!("PROBE {} server: SUBSCRIBE handler done", name);
                    Ok::<_, TestError>(msg.ack())
                }
                ProtocolMessage::Unsubscribe(msg) => {
                    println!("PROBE {} server: UNSUBSCRIBE handler start", name);
                    sleep(Millis(300)).await;
                    println!("PROBE {} server: UNSUBSCRIBE handler done", name);
                    Ok(msg.ack())
                }
                _ => Ok(msg.disconnect()),
            })
            .publish(move |p: Publish| async move {
                println!("PROBE {} server: PUBLISH handler start id={:?}", name, p.id());
                sleep(Millis(300)).await;
                Ok::<_, TestError>(p.ack())
            })
    })
    .config(SharedCfg::new("MQTT").add(
        MqttServiceConfig::new().set_max_receive(receive_max).set_max_qos(QoS::AtLeastOnce),
    ))
    .start();

    let io = srv.connect().await.unwrap();
    let codec = codec::Codec::new();
    io.send(Encoded::Packet(codec::Connect::default().client_id("user").into()), &codec)
        .await
        .unwrap();
    match io.recv(&codec).await.unwrap().unwrap() {
        Decoded::Packet(Packet::ConnectAck(ack), _) => {
            println!("PROBE {} CONNACK receive_max={}", name, ack.receive_max);
            assert_eq!(ack.receive_max.get(), receive_max);
        }
        other => panic!("unexpected {:?}", other),
    }

    for step in &steps {
        println!("PROBE {} peer sends {:?}", name, step);
        io.send(to_packet(*step), &codec).await.unwrap();
    }

    let mut log = Vec::new();
    for _ in 0..steps.len() {
        let r = recv(&io, &codec).await;
        println!("PROBE {} peer received: {}", name, r);
        let stop = r.starts_with("DISCONNECT")
            || r.starts_with("connection closed")
            || r.starts_with("error")
            || r.starts_with("timeout");
        log.push(r);
        if stop {
            break;
        }
    }
    drop(io);
    drop(srv);
    sleep(Millis(50)).await;
    log
}

fn sorted(mut v: Vec<String>) -> Vec<String> {
    v.sort();
    v
}

#[test]
fn d15_control_two_publishes() {
    let log = block_on("d15_c2", run("two_publishes", 2, vec![Step::Pub(1), Step::Pub(2)]));
    println!("PROBE-RESULT receive max 2, PUBLISH 1, PUBLISH 2: {:?}", log);
    assert_eq!(sorted(log), vec!["PUBACK id=1 Success", "PUBACK id=2 Success"]);
}

#[test]
fn d15_control_three_publishes() {
    let log = block_on(
        "d15_c3",
        run("three_publishes", 2, vec![Step::Pub(1), Step::Pub(2), Step::Pub(3)]),
    );
    println!("PROBE-RESULT receive max 2, PUBLISH 1, 2, 3: {:?}", log);
    assert!(
        log.iter().any(|l| l.starts_with("DISCONNECT ReceiveMaximumExceeded")),
        "the limit itself is not enforced: {:?}",
        log
    );
}

#[test]
fn d15_one_subscribe_two_publishes() {
    let log = block_on(
        "d15_a",
        run("sub_pub_pub", 2, vec![Step::Sub(10), Step::Pub(1), Step::Pub(2)]),
    );
    println!("PROBE-RESULT receive max 2, SUBSCRIBE 10, PUBLISH 1, PUBLISH 2: {:?}", log);
    assert_eq!(
        sorted(log),
        vec!["PUBACK id=1 Success", "PUBACK id=2 Success", "SUBACK id=10 [GrantedQos1]"],
        "2 unacknowledged PUBLISH are within Receive Maximum 2"
    );
}

#[test]
fn d15_two_subscribes_one_publish() {
    let log = block_on(
        "d15_b",
        run("sub_sub_pub", 2, vec![Step::Sub(10), Step::Sub(11), Step::Pub(1)]),
    );
    println!("PROBE-RESULT receive max 2, SUBSCRIBE 10, SUBSCRIBE 11, PUBLISH 1: {:?}", log);
    assert_eq!(
        sorted(log),
        vec!["PUBACK id=1 Success", "SUBACK id=10 [GrantedQos1]", "SUBACK id=11 [GrantedQos1]"],
        "1 unacknowledged PUBLISH is within Receive Maximum 2"
    );
}

#[test]
fn d15_two_unsubscribes_one_publish() {
    let log = block_on(
        "d15_c",
        run("unsub_unsub_pub", 2, vec![Step::Unsub(10), Step::Unsub(11), Step::Pub(1)]),
    );
    println!("PROBE-RESULT receive max 2, UNSUBSCRIBE 10, UNSUBSCRIBE 11, PUBLISH 1: {:?}", log);
    assert_eq!(
        sorted(log),
        vec!["PUBACK id=1 Success", "UNSUBACK id=10 [Success]", "UNSUBACK id=11 [Success]"],
        "1 unacknowledged PUBLISH is within Receive Maximum 2"
    );
}

//! D21 (C13), v5: lost wake-up after a streamed send whose payload handle was dropped.
//!
//! Send window is 1. Sender A has a QoS1 publish in flight. Sender B is a
//! `stream_at_least_once` future, parked on the window; the application drops B's
//! `StreamingPayload` handle while B is still parked. Sender C (valid publish) parks behind B.
//! The peer acks A.
//!
//! Correct behaviour: B completes with `StreamingCancelled` (nothing was written for it),
//! C then gets the free window, is written to the peer and completes once acked.
//! Suspected: the ack wakes exactly one waiter (B); B fails without using the window and
//! without passing the wake-up on, so C stays parked forever although nothing is in flight.
use std::future::Future;
use std::sync::{Arc, Mutex};

use ntex::server;
use ntex::time::{Millis, sleep, timeout};
use ntex::util::{ByteString, Bytes, Ready};

use ntex_mqtt::v5::codec::{self, Decoded, Encoded, Packet};
use ntex_mqtt::v5::{Handshake, MqttServer, Publish, PublishAck};

struct St;

#[derive(Debug)]
struct TestError;

impl From<()> for TestError {
    fn from(_: ()) -> Self {
        TestError
    }
}

impl TryFrom<TestError> for PublishAck {
    type Error = TestError;

    fn try_from(err: TestError) -> Result<Self, Self::Error> {
        Err(err)
    }
}

fn block_on<F: Future + 'static>(name: &str, f: F) -> F::Output
where
    F::Output: 'static,
{
    ntex::rt::System::build().name(name).testing().build(ntex::rt::DefaultRuntime).block_on(f)
}

#[derive(Default, Debug, Clone)]
struct Out {
    a: Option<String>,
    b: Option<String>,
    c: Option<String>,
    credit_end: Option<usize>,
}

/// `b_cancelled`: B's StreamingPayload handle is dropped while B is parked (scenario); otherwise the
/// handle is kept and an empty payload is streamed (control run).
async fn run(b_cancelled: bool) -> Out {
    let out: Arc<Mutex<Out>> = Arc::new(Mutex::new(Out::default()));
    let out2 = out.clone();

    let srv = server::test_server(async move || {
        let out = out2.clone();
        MqttServer::new(move |con: Handshake| {
            let sink = con.sink();
            let out = out.clone();
            ntex::rt::spawn(async move {
                sleep(Millis(100)).await;

                // sender A: takes the only window slot
                let (s, o) = (sink.clone(), out.clone());
                ntex::rt::spawn(async move {
                    let r = s.publish(ByteString::from_static("a")).send_at_least_once(Bytes::new()).await;
                    println!("PROBE sender A -> {:?}", r);
                    o.lock().unwrap().a = Some(format!("{:?}", r));
                });
                sleep(Millis(50)).await;
                println!("PROBE credit with A in flight = {}", sink.credit());

                // sender B (streamed) and C park on the window (wait_readiness is called eagerly)
                let (fut_b, stream_b) =
                    sink.publish(ByteString::from_static("b")).stream_at_least_once(0);
                let fut_c =
                    sink.publish(ByteString::from_static("c")).send_at_least_once(Bytes::new());
                let keep = if b_cancelled {
                    drop(stream_b);
                    None
                } else {
                    Some(stream_b)
                };
                let o = out.clone();
                ntex::rt::spawn(async move {
                    let r = fut_b.await;
                    println!("PROBE sender B -> {:?}", r);
                    o.lock().unwrap().b = Some(format!("{:?}", r));
                });
                let o = out.clone();
                ntex::rt::spawn(async move {
                    let r = fut_c.await;
                    println!("PROBE sender C -> {:?}", r);
                    o.lock().unwrap().c = Some(format!("{:?}", r));
                });

                sleep(Millis(2500)).await;
                let credit = sink.credit();
                println!("PROBE credit at the end = {} (is_open={})", credit, sink.is_open());
                out.lock().unwrap().credit_end = Some(credit);
                drop(keep);
            });
            Ready::Ok::<_, TestError>(con.ack(St).max_send(Some(1)))
        })
        .publish(|p: Publish| Ready::Ok::<_, TestError>(p.ack()))
    });

    let io = srv.connect().await.unwrap();
    let codec = codec::Codec::new();
    let connect = codec::Connect::default().client_id("user");
    io.send(Encoded::Packet(connect.into()), &codec).await.unwrap();
    let _ = io.recv(&codec).await.unwrap().unwrap();

    // receive publishes; ack each one 300ms after it arrived
    loop {
        match timeout(Millis(2000), io.recv(&codec)).await {
            Ok(Ok(Some(Decoded::Publish(p, _, _)))) => {
                println!("PROBE peer got PUBLISH topic={:?} id={:?}", p.topic, p.packet_id);
                sleep(Millis(300)).await;
                io.send(
                    Encoded::Packet(Packet::PublishAck(codec::PublishAck {
                        packet_id: p.packet_id.unwrap(),
                        reason_code: codec::PublishAckReason::Success,
                        properties: Default::default(),
                        reason_string: None,
                    })),
                    &codec,
                )
                .await
                .unwrap();
            }
            Ok(Ok(Some(other))) => println!("PROBE peer got {:?}", other),
            Ok(Ok(None)) => break,
            Ok(Err(e)) => {
                println!("PROBE peer: recv error {:?}", e);
                break;
            }
            Err(_) => {
                println!("PROBE peer: nothing more from server for 2s");
                break;
            }
        }
    }
    for _ in 0..30 {
        if out.lock().unwrap().credit_end.is_some() {
            break;
        }
        sleep(Millis(100)).await;
    }
    drop(io);
    drop(srv);
    sleep(Millis(50)).await;
    let res = out.lock().unwrap().clone();
    println!("PROBE-RESULT b_cancelled={} -> {:?}", b_cancelled, res);
    res
}

#[test]
fn d21_v5_control_stream_kept() {
    let res = block_on("d21_v5_control", run(false));
    assert!(res.a.unwrap().starts_with("Ok("));
    assert!(res.b.unwrap().starts_with("Ok("));
    assert!(res.c.expect("sender C never completed").starts_with("Ok("));
}

#[test]
fn d21_v5_cancelled_stream_drops_baton() {
    let res = block_on("d21_v5", run(true));
    assert!(res.a.unwrap().starts_with("Ok("));
    assert!(res.b.unwrap().contains("StreamingCancelled"));
    assert!(
        res.c.as_deref().is_some_and(|c| c.starts_with("Ok(")),
        "sender C never completed although the window is free (credit at end = {:?}): {:?}",
        res.credit_end,
        res.c
    );
}

//! D1 (C06/C16), v3: the peer acknowledges a QoS1 PUBLISH (or a SUBSCRIBE) with
//! PUBREC / PUBCOMP (same packet id) instead of PUBACK (SUBACK).
//!
//! Correct behaviour: protocol error, the connection is closed, the send future
//! resolves to an `Err`, nothing panics.
//! Suspected: `pkt_ack_inner` (src/v3/shared.rs) does not compare the expected
//! ack type on the PUBREC / PUBCOMP branches. In v3 the QoS1 sender maps any
//! delivered `Ack` to `Ok(())`, so the wrong ack is *accepted as success*; the
//! SUBSCRIBE sender maps through `Ack::subscribe()` which hits `panic!()`.
use std::future::Future;
use std::panic::{AssertUnwindSafe, catch_unwind};
use std::pin::Pin;
use std::sync::{Arc, Mutex};
use std::task::{Context, Poll};

use ntex::server;
use ntex::time::{Millis, sleep, timeout};
use ntex::util::{ByteString, Bytes, Ready};

use ntex_mqtt::v3::codec::{self, Decoded, Encoded, Packet};
use ntex_mqtt::v3::{Handshake, MqttServer};

struct St;

/// Polls the inner future under `catch_unwind`, so a panic raised while the
/// send future is polled is turned into a value we can report.
struct CatchPanic<F>(Pin<Box<F>>);

impl<F: Future> Future for CatchPanic<F> {
    type Output = Result<F::Output, String>;

    fn poll(mut self: Pin<&mut Self>, cx: &mut Context<'_>) -> Poll<Self::Output> {
        let fut = self.0.as_mut();
        match catch_unwind(AssertUnwindSafe(|| fut.poll(cx))) {
            Ok(Poll::Pending) => Poll::Pending,
            Ok(Poll::Ready(v)) => Poll::Ready(Ok(v)),
            Err(e) => {
                let msg = if let Some(s) = e.downcast_ref::<&str>() {
                    (*s).to_string()
                } else if let Some(s) = e.downcast_ref::<String>() {
                    s.clone()
                } else {
                    "<non-string panic payload>".to_string()
                };
                Poll::Ready(Err(msg))
            }
        }
    }
}

#[derive(Clone, Copy, Debug)]
enum Wrong {
    PubRec,
    PubComp,
}

#[derive(Clone, Copy, Debug)]
enum What {
    PublishQos1,
    Subscribe,
}

fn fmt_res<T: std::fmt::Debug, E: std::fmt::Debug>(res: Result<Result<T, E>, String>) -> String {
    match res {
        Ok(Ok(ack)) => format!("ok:{:?}", ack),
        Ok(Err(e)) => format!("err:{:?}", e),
        Err(p) => format!("panic:{:?}", p),
    }
}

async fn run(what: What, wrong: Wrong) -> String {
    // outcome of the server-side send future: "ok:..", "err:..", "panic:.."
    let outcome: Arc<Mutex<Option<String>>> = Arc::new(Mutex::new(None));
    let outcome2 = outcome.clone();
    let location: Arc<Mutex<Option<String>>> = Arc::new(Mutex::new(None));
    let location2 = location.clone();

    // record panic location (process wide hook: run with --test-threads=1)
    let prev = std::panic::take_hook();
    std::panic::set_hook(Box::new(move |info| {
        if let Some(l) = info.location() {
            *location2.lock().unwrap() = Some(format!("{}:{}", l.file(), l.line()));
        }
        prev(info);
    }));

    let srv = server::test_server(async move || {
        let outcome = outcome2.clone();
        MqttServer::new(move |con: Handshake| {
            let sink = con.sink();
            let outcome = outcome.clone();
            ntex::rt::spawn(async move {
                sleep(Millis(100)).await;
                let s = match what {
                    What::PublishQos1 => {
                        let fut = sink
                            .publish(ByteString::from_static("t1"))
                            .send_at_least_once(Bytes::new());
                        fmt_res(CatchPanic(Box::pin(fut)).await)
                    }
                    What::Subscribe => {
                        let fut = sink
                            .subscribe()
                            .topic_filter(ByteString::from_static("a/b"), codec::QoS::AtMostOnce)
                            .send();
                        fmt_res(CatchPanic(Box::pin(fut)).await)
                    }
                };
                println!("PROBE server {:?} send future -> {}", what, s);
                println!(
                    "PROBE server sink after ack: is_open={} credit={}",
                    sink.is_open(),
                    sink.credit()
                );
                *outcome.lock().unwrap() = Some(s);
            });
            Ready::Ok::<_, ()>(con.ack(St, false).max_send(Some(1)))
        })
        .publish(|_| Ready::Ok::<_, ()>(()))
    });

    let io = srv.connect().await.unwrap();
    let codec = codec::Codec::new();
    io.send(Encoded::Packet(codec::Connect::default().client_id("user").into()), &codec)
        .await
        .unwrap();
    let _ = io.recv(&codec).await.unwrap().unwrap();

    // server publishes QoS1 / subscribes
    let id = match timeout(Millis(2000), io.recv(&codec)).await {
        Ok(Ok(Some(Decoded::Publish(p, _, _)))) => {
            println!("PROBE peer got PUBLISH qos={:?} id={:?}", p.qos, p.packet_id);
            p.packet_id.unwrap()
        }
        Ok(Ok(Some(Decoded::Packet(Packet::Subscribe { packet_id, .. }, _)))) => {
            println!("PROBE peer got SUBSCRIBE id={:?}", packet_id);
            packet_id
        }
        other => panic!("PROBE no packet from server: {:?}", other),
    };

    // answer with the wrong ack type
    let pkt = match wrong {
        Wrong::PubRec => Packet::PublishReceived { packet_id: id },
        Wrong::PubComp => Packet::PublishComplete { packet_id: id },
    };
    println!("PROBE peer answers with {:?}", wrong);
    io.send(Encoded::Packet(pkt), &codec).await.unwrap();

    // what does the server do on the wire?
    match timeout(Millis(1000), io.recv(&codec)).await {
        Ok(Ok(Some(other))) => println!("PROBE wire: server sent {:?}", other),
        Ok(Ok(None)) => println!("PROBE wire: connection closed by server"),
        Ok(Err(e)) => println!("PROBE wire: recv error {:?}", e),
        Err(_) => println!("PROBE wire: nothing within 1s, connection still open"),
    }

    // wait for send future outcome
    for _ in 0..20 {
        if outcome.lock().unwrap().is_some() {
            break;
        }
        sleep(Millis(100)).await;
    }
    let _ = std::panic::take_hook();
    drop(io);
    drop(srv);
    sleep(Millis(50)).await;
    let res = outcome.lock().unwrap().clone().unwrap_or_else(|| "unresolved".to_string());
    println!(
        "PROBE-RESULT v3 {:?} answered with {:?} -> {} (panic location: {:?})",
        what,
        wrong,
        res,
        location.lock().unwrap()
    );
    res
}

/// Run the scenario on an ntex runtime, return the result to the plain test
/// thread so that the assertion does not unwind through the runtime.
fn block_on<F: Future + 'static>(name: &str, f: F) -> F::Output
where
    F::Output: 'static,
{
    ntex::rt::System::build().name(name).testing().build(ntex::rt::DefaultRuntime).block_on(f)
}

#[test]
fn d1_v3_pubrec_for_qos1() {
    let res = block_on("d1_v3_pubrec", run(What::PublishQos1, Wrong::PubRec));
    assert!(res.starts_with("err:"), "expected send future to fail cleanly, got {res}");
}

#[test]
fn d1_v3_pubcomp_for_qos1() {
    let res = block_on("d1_v3_pubcomp", run(What::PublishQos1, Wrong::PubComp));
    assert!(res.starts_with("err:"), "expected send future to fail cleanly, got {res}");
}

#[test]
fn d1_v3_pubrec_for_subscribe() {
    let res = block_on("d1_v3_sub_pubrec", run(What::Subscribe, Wrong::PubRec));
    assert!(res.starts_with("err:"), "expected send future to fail cleanly, got {res}");
}

#[test]
fn d1_v3_pubcomp_for_subscribe() {
    let res = block_on("d1_v3_sub_pubcomp", run(What::Subscribe, Wrong::PubComp));
    assert!(res.starts_with("err:"), "expected send future to fail cleanly, got {res}");
}

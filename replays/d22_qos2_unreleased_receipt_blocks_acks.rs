//! D22 (C14 / C06), MQTT 3.1.1 and MQTT 5 sinks: an exactly-once exchange whose PUBREC has arrived is re-queued
//! *at the back of the single in-flight queue* waiting for PUBCOMP (`pkt_ack_inner`, `Ack::Receive` branch), and the
//! queue is matched strictly first-in first-out.  The position in that queue is fixed when the PUBREC is *received*,
//! although the peer can send the PUBCOMP only after the application *released* the receipt (PUBREL).
//!
//! Scenario A (QoS 1 traffic behind an unreleased receipt): send_exactly_once("a") -> PUBREC(1) received, receipt
//! kept; send_at_least_once("q") -> the peer acknowledges it correctly with PUBACK(2); then the receipt is released.
//! Correct behaviour (C06 "when the peer acknowledges every packet it receives correctly and in order, every send
//! completes and the connection is not ended"; C14 "mixed with QoS 1 traffic"): q completes, a completes.
//! Observed: PUBACK(2) meets (1, Complete) at the front of the queue -> packet id mismatch -> protocol error, the
//! connection is ended, both sends fail with Disconnected.
//!
//! Scenario B (receipts released in the other order): two exactly-once sends, PUBREC 1, PUBREC 2, the application
//! releases #2 first; the peer answers every PUBREL at once with the PUBCOMP of the same id.
//! Correct behaviour (C14 "all orders in which the application releases or drops the receipts ... each completes
//! when its own PUBCOMP arrives"): both complete.  Observed: PUBCOMP(2) meets (1, Complete) -> protocol error.
//!
//! Control: same two exchanges released in PUBREC order complete.
use std::future::Future;
use std::num::NonZeroU16;
use std::sync::{Arc, Mutex};

use ntex::server;
use ntex::time::{Millis, sleep, timeout};
use ntex::util::{ByteString, Bytes, Ready};

use ntex_mqtt::v3::codec::{self, Decoded, Encoded, Packet};
use ntex_mqtt::v3::{Handshake, MqttServer};

struct St;

fn block_on<F: Future + 'static>(name: &str, f: F) -> F::Output
where
    F::Output: 'static,
{
    ntex::rt::System::build().name(name).testing().build(ntex::rt::DefaultRuntime).block_on(f)
}

fn id(v: u16) -> NonZeroU16 {
    NonZeroU16::new(v).unwrap()
}

#[derive(Clone, Copy, PartialEq, Debug)]
enum Scenario {
    Qos1BehindUnreleased,
    ReleaseSecondFirst,
    ControlInOrder,
}

async fn run(sc: Scenario) -> Vec<String> {
    let log: Arc<Mutex<Vec<String>>> = Arc::new(Mutex::new(Vec::new()));
    let log2 = log.clone();

    let srv = server::test_server(async move || {
        let log = log2.clone();
        MqttServer::new(move |con: Handshake| {
            let sink = con.sink();
            let log = log.clone();
            ntex::rt::spawn(async move {
                sleep(Millis(50)).await;
                let put = |s: String| {
                    println!("PROBE-RESULT {}", s);
                    log.lock().unwrap().push(s)
                };
                match sc {
                    Scenario::Qos1BehindUnreleased => {
                        let ra = timeout(
                            Millis(2000),
                            sink.publish(ByteString::from_static("a")).send_exactly_once(Bytes::new()),
                        )
                        .await;
                        let Ok(Ok(ra)) = ra else {
                            put(format!("a: no receipt"));
                            return;
                        };
                        let rq = timeout(
                            Millis(2000),
                            sink.publish(ByteString::from_static("q")).send_at_least_once(Bytes::new()),
                        )
                        .await;
                        put(format!("q: {:?}", rq));
                        let r = timeout(Millis(2000), ra.release()).await;
                        put(format!("a: {:?}", r));
                    }
                    Scenario::ReleaseSecondFirst | Scenario::ControlInOrder => {
                        let fa = sink.publish(ByteString::from_static("a")).send_exactly_once(Bytes::new());
                        let fb = sink.publish(ByteString::from_static("b")).send_exactly_once(Bytes::new());
                        let (ra, rb) =
                            ntex::util::join(timeout(Millis(2000), fa), timeout(Millis(2000), fb)).await;
                        let (Ok(Ok(ra)), Ok(Ok(rb))) = (ra, rb) else {
                            put(format!("no receipts"));
                            return;
                        };
                        if sc == Scenario::ReleaseSecondFirst {
                            let r = timeout(Millis(2000), rb.release()).await;
                            put(format!("b: {:?}", r));
                            let r = timeout(Millis(2000), ra.release()).await;
                            put(format!("a: {:?}", r));
                        } else {
                            let r = timeout(Millis(2000), ra.release()).await;
                            put(format!("a: {:?}", r));
                            let r = timeout(Millis(2000), rb.release()).await;
                            put(format!("b: {:?}", r));
                        }
                    }
                }
                put(format!("open: {}", sink.is_open()));
            });
            Ready::Ok::<_, ()>(con.ack(St, false))
        })
        .publish(|_| Ready::Ok(()))
    });

    let io = srv.connect().await.unwrap();
    let codec = codec::Codec::default();
    io.send(Encoded::Packet(Packet::Connect(codec::Connect::default().client_id("user").into())), &codec)
        .await
        .unwrap();
    let _ = io.recv(&codec).await.unwrap().unwrap();

    // the peer: answers every packet it receives correctly, in the order it receives them
    let peer = async {
        loop {
            let Ok(Ok(Some(pkt))) = timeout(Millis(3000), io.recv(&codec)).await else { break };
            let answer = match pkt {
                Decoded::Publish(p, _, _) => match p.qos {
                    codec::QoS::AtLeastOnce => Some(Packet::PublishAck { packet_id: p.packet_id.unwrap() }),
                    codec::QoS::ExactlyOnce => Some(Packet::PublishReceived { packet_id: p.packet_id.unwrap() }),
                    _ => None,
                },
                Decoded::Packet(Packet::PublishRelease { packet_id }, _) => {
                    Some(Packet::PublishComplete { packet_id })
                }
                _ => None,
            };
            if let Some(a) = answer {
                if io.send(Encoded::Packet(a), &codec).await.is_err() {
                    break;
                }
            }
        }
    };
    let _ = timeout(Millis(4000), peer).await;
    let _ = id(1);
    let v = log.lock().unwrap().clone();
    v
}

fn all_ok(log: &[String], names: &[&str]) -> bool {
    names.iter().all(|n| log.iter().any(|l| l.starts_with(&format!("{}: Ok(Ok(", n))))
        && log.iter().any(|l| l == "open: true")
}

#[test]
fn control_receipts_released_in_pubrec_order_complete() {
    let log = block_on("d22-control", run(Scenario::ControlInOrder));
    assert!(all_ok(&log, &["a", "b"]), "{:?}", log);
}

#[test]
fn qos1_send_behind_an_unreleased_receipt_completes_on_its_puback() {
    let log = block_on("d22-a", run(Scenario::Qos1BehindUnreleased));
    assert!(all_ok(&log, &["q", "a"]), "correctly acknowledged sends failed: {:?}", log);
}

#[test]
fn receipts_released_in_the_other_order_complete_on_their_own_pubcomp() {
    let log = block_on("d22-b", run(Scenario::ReleaseSecondFirst));
    assert!(all_ok(&log, &["b", "a"]), "exchanges did not complete independently: {:?}", log);
}

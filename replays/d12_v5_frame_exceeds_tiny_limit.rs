//! D12 (C09), v5: frames larger than a tiny announced Maximum Packet Size.
//!
//! `Codec::set_max_outbound_size(n)` deducts the 5 byte fixed-header allowance
//! only for n > 5; for n in 1..=5 it stores n unchanged and the encoder compares
//! just the *remaining length* with it. So the whole frame (fixed header +
//! remaining length) may be larger than the limit the peer announced.
//!
//! Correct behaviour ([MQTT-3.1.2-24] / [MQTT-3.2.2-15]: never send a packet
//! larger than the peer's Maximum Packet Size): for every n, `encodev` either
//! returns `Err(OverMaxPacketSize)` or writes at most n bytes.
//! (n = 0 means "unlimited" for this API and is not swept.)
use std::num::NonZeroU16;
use std::panic::{AssertUnwindSafe, catch_unwind};

use ntex::codec::Encoder;
use ntex::util::{BytePages, ByteString, Bytes};

use ntex_mqtt::v5::codec::{self, Codec, Encoded, Packet};

fn id(n: u16) -> NonZeroU16 {
    NonZeroU16::new(n).unwrap()
}

fn ack(reason_code: codec::PublishAckReason) -> codec::PublishAck {
    codec::PublishAck {
        packet_id: id(1),
        reason_code,
        properties: Default::default(),
        reason_string: None,
    }
}

fn ack2() -> codec::PublishAck2 {
    codec::PublishAck2 {
        packet_id: id(1),
        reason_code: codec::PublishAck2Reason::Success,
        properties: Default::default(),
        reason_string: None,
    }
}

fn items() -> Vec<(&'static str, Box<dyn Fn() -> Encoded>)> {
    vec![
        ("PINGRESP", Box::new(|| Encoded::Packet(Packet::PingResponse))),
        ("PINGREQ", Box::new(|| Encoded::Packet(Packet::PingRequest))),
        (
            "DISCONNECT(default)",
            Box::new(|| Encoded::Packet(Packet::Disconnect(codec::Disconnect::default()))),
        ),
        ("AUTH(default)", Box::new(|| Encoded::Packet(Packet::Auth(codec::Auth::default())))),
        (
            "CONNACK(default)",
            Box::new(|| Encoded::Packet(Packet::ConnectAck(Box::default()))),
        ),
        (
            "PUBACK(success)",
            Box::new(|| Encoded::Packet(Packet::PublishAck(ack(codec::PublishAckReason::Success)))),
        ),
        (
            "PUBREC(success)",
            Box::new(|| {
                Encoded::Packet(Packet::PublishReceived(ack(codec::PublishAckReason::Success)))
            }),
        ),
        ("PUBREL(success)", Box::new(|| Encoded::Packet(Packet::PublishRelease(ack2())))),
        ("PUBCOMP(success)", Box::new(|| Encoded::Packet(Packet::PublishComplete(ack2())))),
        (
            "SUBACK(1 status)",
            Box::new(|| {
                Encoded::Packet(Packet::SubscribeAck(codec::SubscribeAck {
                    packet_id: id(1),
                    properties: Default::default(),
                    reason_string: None,
                    status: vec![codec::SubscribeAckReason::GrantedQos0],
                }))
            }),
        ),
        (
            "UNSUBACK(1 status)",
            Box::new(|| {
                Encoded::Packet(Packet::UnsubscribeAck(codec::UnsubscribeAck {
                    packet_id: id(1),
                    properties: Default::default(),
                    reason_string: None,
                    status: vec![codec::UnsubscribeAckReason::Success],
                }))
            }),
        ),
        (
            "PUBLISH(qos0 topic 't', empty payload)",
            Box::new(|| {
                Encoded::Publish(
                    codec::Publish {
                        dup: false,
                        retain: false,
                        qos: codec::QoS::AtMostOnce,
                        topic: ByteString::from_static("t"),
                        packet_id: None,
                        payload_size: 0,
                        properties: Default::default(),
                    },
                    Some(Bytes::new()),
                )
            }),
        ),
        (
            "PUBLISH(qos1 topic 't', payload 'x')",
            Box::new(|| {
                Encoded::Publish(
                    codec::Publish {
                        dup: false,
                        retain: false,
                        qos: codec::QoS::AtLeastOnce,
                        topic: ByteString::from_static("t"),
                        packet_id: Some(id(1)),
                        payload_size: 1,
                        properties: Default::default(),
                    },
                    Some(Bytes::from_static(b"x")),
                )
            }),
        ),
    ]
}

#[test]
fn d12_v5_frame_never_larger_than_announced_limit() {
    let prev = std::panic::take_hook();
    std::panic::set_hook(Box::new(|_| {}));

    let mut violations = Vec::new();
    let mut panics = Vec::new();
    for (name, mk) in items() {
        // size of the frame without any limit
        let full = {
            let mut dst = BytePages::default();
            Codec::new().encodev(mk(), &mut dst).unwrap();
            dst.len()
        };
        let mut line = String::new();
        for n in 1u32..=16 {
            let codec = Codec::new();
            codec.set_max_outbound_size(n);
            let stored = codec.max_outbound_size();
            let mut dst = BytePages::default();
            let res = catch_unwind(AssertUnwindSafe(|| codec.encodev(mk(), &mut dst)));
            let len = dst.len();
            match res {
                Ok(Ok(())) => {
                    if len as u32 > n {
                        line.push_str(&format!(" n={}:OK/{}B!", n, len));
                        violations.push(format!(
                            "{}: limit {} (stored {}) -> Ok, {} bytes written [{}]",
                            name,
                            n,
                            stored,
                            len,
                            dst.freeze().iter().map(|b| format!("{:02x}", b)).collect::<Vec<_>>().join(" ")
                        ));
                    } else {
                        line.push_str(&format!(" n={}:ok/{}B", n, len));
                    }
                }
                Ok(Err(e)) => {
                    line.push_str(&format!(" n={}:{:?}", n, e).replace("OverMaxPacketSize", "Over"));
                }
                Err(_) => {
                    line.push_str(&format!(" n={}:PANIC", n));
                    panics.push(format!("{}: limit {} -> panic", name, n));
                }
            }
        }
        println!("PROBE {} (full frame {} bytes):{}", name, full, line);
    }
    std::panic::set_hook(prev);

    for v in &violations {
        println!("PROBE-RESULT over the announced limit: {}", v);
    }
    for p in &panics {
        println!("PROBE-RESULT {}", p);
    }
    println!(
        "PROBE-RESULT {} (packet, limit) pairs produced a frame larger than the limit; {} panics",
        violations.len(),
        panics.len()
    );
    assert!(panics.is_empty(), "{:#?}", panics);
    assert!(violations.is_empty(), "frames larger than the announced limit: {:#?}", violations);
}

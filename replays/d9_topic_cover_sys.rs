//! D9 (C18): `TopicFilter::matches_filter` (filter A covers filter B) versus
//! `TopicFilter::matches_topic` for first-level `$` topics.
//!
//! MQTT 4.7.2: a filter starting with a wildcard (`#` or `+`) does not match topic
//! names beginning with `$`. `matches_topic` implements that (index == 0 check).
//! "A covers B" must imply: every topic matched by B is matched by A.
//!
//! Suspected: `match_level_impl` ignores `_index`, so `#`, `+/x`, `+/#` are reported
//! to cover the filter `$SYS/x` although none of them matches the topic `$SYS/x`.
use ntex_mqtt::TopicFilter;

fn tf(s: &str) -> TopicFilter {
    s.parse().unwrap()
}

#[test]
fn d9_cover_implies_topic_match() {
    // (superset filter, subset filter, witness topic matched by the subset filter)
    let cases = [
        ("#", "$SYS/x", "$SYS/x"),
        ("+/x", "$SYS/x", "$SYS/x"),
        ("+/#", "$SYS/x", "$SYS/x"),
        ("+/+", "$SYS/x", "$SYS/x"),
        ("#", "$SYS/#", "$SYS/a/b"),
        ("+/monitor/+", "$SYS/monitor/+", "$SYS/monitor/Clients"),
        ("+", "$SYS", "$SYS"),
        ("#", "$SYS", "$SYS"),
        // controls: not first level / not a system level
        ("#", "a/$SYS/x", "a/$SYS/x"),
        ("+/x", "a/x", "a/x"),
        ("$SYS/#", "$SYS/x", "$SYS/x"),
    ];
    let mut bad = Vec::new();
    for (sup, sub, topic) in cases {
        let (fsup, fsub) = (tf(sup), tf(sub));
        assert!(fsub.matches_topic(topic), "bad witness: {sub} should match {topic}");
        let covers = fsup.matches_filter(&fsub);
        let matches = fsup.matches_topic(topic);
        let consistent = !covers || matches;
        println!(
            "PROBE{} {:<12} covers {:<15} = {:<5} | {:<12} matches topic {:<22} = {:<5}{}",
            if consistent { "" } else { "-RESULT" },
            format!("{sup:?}"),
            format!("{sub:?}"),
            covers,
            format!("{sup:?}"),
            format!("{topic:?}"),
            matches,
            if consistent { "" } else { "  <-- inconsistent" }
        );
        if !consistent {
            bad.push((sup, sub, topic));
        }
    }
    assert!(bad.is_empty(), "covering relation contradicts topic matching for: {:?}", bad);
}

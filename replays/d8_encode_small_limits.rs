//! D8 (C09): v5 encoder arithmetic for tiny peer "Maximum Packet Size" values.
//!
//! `Codec::set_max_outbound_size(n)` stores `n - 5` for n > 5 (and `n` itself for
//! n <= 5); that value is the `limit` handed to `EncodeLtd::encoded_size`.
//! Suspected: `limit - HEADER_LEN - 4` (pubacks.rs, PublishAck / PublishAck2) and
//! `limit - 2 - len as u32` (subscribe.rs, SubscribeAck / UnsubscribeAck)
//! underflow for small limits -> panic "attempt to subtract with overflow".
//!
//! Correct behaviour: `Err(EncodeError::OverMaxPacketSize)` or a packet shortened
//! to fit (reason string / user properties dropped), never a panic, and never an
//! `Ok` that produced more bytes than the peer allows.
//!
//! Second test: the same end to end. A raw "server" announces Maximum Packet
//! Size = 8 in CONNACK and sends a QoS1 PUBLISH to a real v5 client; the client
//! has to encode a PUBACK under that limit.
use std::future::Future;
use std::num::NonZeroU16;
use std::panic::{AssertUnwindSafe, catch_unwind};
use std::sync::{Arc, Mutex};

use ntex::codec::Encoder;
use ntex::io::Io;
use ntex::server;
use ntex::service::{ServiceFactory, cfg::SharedCfg, fn_service};
use ntex::time::{Millis, sleep, timeout};
use ntex::util::{BytePages, ByteString, Bytes};

use ntex_mqtt::v5::codec::{self, Decoded, Encoded, Packet};
use ntex_mqtt::v5::{self, PublishAck, client};

fn id(n: u16) -> NonZeroU16 {
    NonZeroU16::new(n).unwrap()
}

fn packets() -> Vec<(&'static str, Packet)> {
    let props = vec![(ByteString::from_static("k"), ByteString::from_static("v"))];
    vec![
        (
            "PUBACK(success, no props)",
            Packet::PublishAck(codec::PublishAck {
                packet_id: id(1),
                reason_code: codec::PublishAckReason::Success,
                properties: Default::default(),
                reason_string: None,
            }),
        ),
        (
            "PUBACK(error + reason string + user prop)",
            Packet::PublishAck(codec::PublishAck {
                packet_id: id(1),
                reason_code: codec::PublishAckReason::UnspecifiedError,
                properties: props.clone(),
                reason_string: Some(ByteString::from_static("some reason")),
            }),
        ),
        (
            "PUBREC(error + reason string)",
            Packet::PublishReceived(codec::PublishAck {
                packet_id: id(1),
                reason_code: codec::PublishAckReason::UnspecifiedError,
                properties: Default::default(),
                reason_string: Some(ByteString::from_static("some reason")),
            }),
        ),
        (
            "PUBREL(not found + reason string)",
            Packet::PublishRelease(codec::PublishAck2 {
                packet_id: id(1),
                reason_code: codec::PublishAck2Reason::PacketIdNotFound,
                properties: Default::default(),
                reason_string: Some(ByteString::from_static("some reason")),
            }),
        ),
        (
            "PUBCOMP(success, no props)",
            Packet::PublishComplete(codec::PublishAck2 {
                packet_id: id(1),
                reason_code: codec::PublishAck2Reason::Success,
                properties: Default::default(),
                reason_string: None,
            }),
        ),
        (
            "SUBACK(3 statuses + reason string)",
            Packet::SubscribeAck(codec::SubscribeAck {
                packet_id: id(1),
                properties: props.clone(),
                reason_string: Some(ByteString::from_static("some reason")),
                status: vec![
                    codec::SubscribeAckReason::GrantedQos0,
                    codec::SubscribeAckReason::GrantedQos1,
                    codec::SubscribeAckReason::UnspecifiedError,
                ],
            }),
        ),
        (
            "SUBACK(3 statuses, no props)",
            Packet::SubscribeAck(codec::SubscribeAck {
                packet_id: id(1),
                properties: Default::default(),
                reason_string: None,
                status: vec![
                    codec::SubscribeAckReason::GrantedQos0,
                    codec::SubscribeAckReason::GrantedQos1,
                    codec::SubscribeAckReason::UnspecifiedError,
                ],
            }),
        ),
        (
            "UNSUBACK(3 statuses + reason string)",
            Packet::UnsubscribeAck(codec::UnsubscribeAck {
                packet_id: id(1),
                properties: props.clone(),
                reason_string: Some(ByteString::from_static("some reason")),
                status: vec![
                    codec::UnsubscribeAckReason::Success,
                    codec::UnsubscribeAckReason::Success,
                    codec::UnsubscribeAckReason::NoSubscriptionExisted,
                ],
            }),
        ),
        (
            "DISCONNECT(error + reason string)",
            Packet::Disconnect(codec::Disconnect {
                reason_code: codec::DisconnectReasonCode::ImplementationSpecificError,
                session_expiry_interval_secs: None,
                server_reference: None,
                reason_string: Some(ByteString::from_static("some reason")),
                user_properties: props.clone(),
            }),
        ),
        ("DISCONNECT(default)", Packet::Disconnect(codec::Disconnect::default())),
        (
            "AUTH(continue + method + reason string)",
            Packet::Auth(codec::Auth {
                reason_code: codec::AuthReasonCode::ContinueAuth,
                auth_method: Some(ByteString::from_static("m")),
                auth_data: Some(Bytes::from_static(b"d")),
                reason_string: Some(ByteString::from_static("some reason")),
                user_properties: props.clone(),
            }),
        ),
        ("CONNACK(default)", Packet::ConnectAck(Box::default())),
        ("PINGRESP", Packet::PingResponse),
    ]
}

#[test]
fn d8_v5_encode_under_small_limits() {
    let mut panics = Vec::new();
    let mut oversize = Vec::new();
    // quiet hook: collect the distinct panic locations instead of printing each
    let locations: Arc<Mutex<std::collections::BTreeSet<String>>> = Arc::default();
    let locations2 = locations.clone();
    let prev = std::panic::take_hook();
    std::panic::set_hook(Box::new(move |info| {
        if let Some(l) = info.location() {
            locations2.lock().unwrap().insert(format!(
                "{}:{}: {}",
                l.file(),
                l.line(),
                info.payload_as_str().unwrap_or("")
            ));
        }
    }));
    for (name, pkt) in packets() {
        let mut line = Vec::new();
        for n in 1u32..=24 {
            let codec = codec::Codec::new();
            codec.set_max_outbound_size(n);
            let pkt = pkt.clone();
            let res = catch_unwind(AssertUnwindSafe(|| {
                let mut dst = BytePages::default();
                codec.encodev(Encoded::Packet(pkt), &mut dst).map(|()| dst.len())
            }));
            let cell = match res {
                Ok(Ok(len)) => {
                    if len as u32 > n {
                        oversize.push(format!("{name} n={n}: wrote {len} bytes"));
                        format!("{n}:Ok({len}B!)")
                    } else {
                        format!("{n}:Ok({len}B)")
                    }
                }
                Ok(Err(e)) => format!("{n}:{:?}", e),
                Err(p) => {
                    let msg = p
                        .downcast_ref::<&str>()
                        .map(|s| s.to_string())
                        .or_else(|| p.downcast_ref::<String>().cloned())
                        .unwrap_or_else(|| "<panic>".into());
                    panics.push(format!("{name} n={n}: {msg}"));
                    format!("{n}:PANIC")
                }
            };
            line.push(cell);
        }
        println!("PROBE {:<42} {}", name, line.join(" "));
    }
    std::panic::set_hook(prev);
    println!("PROBE-RESULT {} encode calls panicked; first/last: {:?} / {:?}", panics.len(), panics.first(), panics.last());
    for l in locations.lock().unwrap().iter() {
        println!("PROBE-RESULT panic location: {}", l);
    }
    for p in &oversize {
        println!("PROBE-NOTE over the announced limit: {}", p);
    }
    assert!(panics.is_empty(), "{} encode calls panicked", panics.len());
    // `oversize` is informational only (n <= 5 is stored without deducting the
    // fixed header, so 2..5 byte packets can exceed such degenerate limits).
}

// ---------------------------------------------------------------------------

#[derive(Debug)]
struct TestError;

impl TryFrom<TestError> for PublishAck {
    type Error = TestError;

    fn try_from(err: TestError) -> Result<Self, Self::Error> {
        Err(err)
    }
}

/// Polls the inner future under `catch_unwind`: the client dispatcher runs on the
/// test thread's runtime, an uncaught panic there would abort the test process.
struct CatchPanic<F>(std::pin::Pin<Box<F>>);

impl<F: Future> Future for CatchPanic<F> {
    type Output = Result<F::Output, ()>;

    fn poll(
        mut self: std::pin::Pin<&mut Self>,
        cx: &mut std::task::Context<'_>,
    ) -> std::task::Poll<Self::Output> {
        let fut = self.0.as_mut();
        match catch_unwind(AssertUnwindSafe(|| fut.poll(cx))) {
            Ok(std::task::Poll::Pending) => std::task::Poll::Pending,
            Ok(std::task::Poll::Ready(v)) => std::task::Poll::Ready(Ok(v)),
            Err(_) => {
                println!("PROBE client dispatcher task panicked (caught by the test wrapper)");
                std::task::Poll::Ready(Err(()))
            }
        }
    }
}

fn block_on<F: Future + 'static>(name: &str, f: F) -> F::Output
where
    F::Output: 'static,
{
    ntex::rt::System::build().name(name).testing().build(ntex::rt::DefaultRuntime).block_on(f)
}

async fn recv(io: &Io, codec: &codec::Codec) -> String {
    match timeout(Millis(1500), io.recv(codec)).await {
        Ok(Ok(Some(Decoded::Packet(Packet::PublishAck(a), n)))) => {
            format!("PUBACK id={} {:?} reason={:?} ({} bytes remaining-length)", a.packet_id, a.reason_code, a.reason_string, n)
        }
        Ok(Ok(Some(Decoded::Packet(Packet::Disconnect(a), _)))) => {
            format!("DISCONNECT {:?}", a.reason_code)
        }
        Ok(Ok(Some(other))) => format!("{:?}", other),
        Ok(Ok(None)) => "connection closed".to_string(),
        Ok(Err(e)) => format!("error {:?}", e),
        Err(_) => "timeout (nothing received)".to_string(),
    }
}

async fn client_vs_tiny_limit(limit: u32) -> (String, Option<String>) {
    let answer: Arc<Mutex<Option<String>>> = Arc::new(Mutex::new(None));
    let answer2 = answer.clone();
    let location: Arc<Mutex<Option<String>>> = Arc::new(Mutex::new(None));
    let location2 = location.clone();

    let prev = std::panic::take_hook();
    std::panic::set_hook(Box::new(move |info| {
        if let Some(l) = info.location() {
            *location2.lock().unwrap() =
                Some(format!("{}:{}: {}", l.file(), l.line(), info.payload_as_str().unwrap_or("")));
        }
        prev(info);
    }));

    let srv = server::test_server(async move || {
        let answer = answer2.clone();
        fn_service(move |io: Io| {
            let answer = answer.clone();
            async move {
                let codec = codec::Codec::new();
                let c = io.recv(&codec).await;
                assert!(matches!(c, Ok(Some(Decoded::Packet(Packet::Connect(_), _)))), "{:?}", c);
                let ack = codec::ConnectAck { max_packet_size: Some(limit), ..Default::default() };
                io.send(Encoded::Packet(Packet::ConnectAck(Box::new(ack))), &codec).await.unwrap();

                let publish = codec::Publish {
                    dup: false,
                    retain: false,
                    qos: v5::QoS::AtLeastOnce,
                    topic: ByteString::from("test"),
                    packet_id: Some(id(1)),
                    payload_size: 0,
                    properties: Default::default(),
                };
                io.send(Encoded::Publish(publish, Some(Bytes::new())), &codec).await.unwrap();
                let r = recv(&io, &codec).await;
                println!("PROBE raw server (announced max packet size {}) got: {}", limit, r);
                *answer.lock().unwrap() = Some(r);
                Ok::<_, ()>(())
            }
        })
    });

    let client = client::MqttConnector::new()
        .pipeline(SharedCfg::default())
        .await
        .unwrap()
        .call(client::Connect::new(srv.addr()).client_id("user"))
        .await
        .unwrap();

    async fn publish(pkt: v5::Publish) -> Result<PublishAck, TestError> {
        Ok(pkt
            .ack()
            .reason_code(codec::PublishAckReason::UnspecifiedError)
            .reason("some reason".into()))
    }
    let router = client.resource("test", publish);
    ntex::rt::spawn(CatchPanic(Box::pin(router.start_default())));

    for _ in 0..40 {
        if answer.lock().unwrap().is_some() {
            break;
        }
        sleep(Millis(100)).await;
    }
    let _ = std::panic::take_hook();
    drop(srv);
    sleep(Millis(50)).await;
    let a = answer.lock().unwrap().clone().unwrap_or_else(|| "unresolved".into());
    let l = location.lock().unwrap().clone();
    println!("PROBE-RESULT v5 client under peer max packet size {}: answer={} panic={:?}", limit, a, l);
    (a, l)
}

#[test]
fn d8_v5_client_puback_under_tiny_limit() {
    let (answer, panic) = block_on("d8_client", client_vs_tiny_limit(8));
    assert!(panic.is_none(), "client panicked while encoding PUBACK: {:?}", panic);
    // either a (shortened) PUBACK that fits, or a clean close
    assert!(
        answer.starts_with("PUBACK id=1") || answer == "connection closed" || answer.starts_with("DISCONNECT"),
        "unexpected: {answer}"
    );
}

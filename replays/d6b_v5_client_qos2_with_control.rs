//! D6 (C03) + D5/client (C11), v5 *client* dispatcher and inbound QoS2.
//!
//! A raw "server" (plain Io + v5 codec) sends the client
//!   1. PUBLISH QoS2 id=1        expected answer: PUBREC id=1 Success
//!   2. PUBREL id=1              expected answer: PUBCOMP id=1 Success
//!   3. PUBLISH QoS2 id=1 again  expected answer: PUBREC id=1 Success (id released in step 2)
//!
//! Suspected (src/v5/client/dispatcher.rs `publish_fn`): the client answers step 1
//! with PUBACK (never PUBREC) and frees the id at once, so step 2 is answered with
//! PUBCOMP PacketIdNotFound.
//!
//! Second test: the same through a real `MqttServer` whose sink does
//! `send_exactly_once()` to a real client: expected `Ok(PublishReceived)` and a
//! successful `release()`.
use std::future::Future;
use std::num::NonZeroU16;
use std::sync::{Arc, Mutex};

use ntex::io::Io;
use ntex::server;
use ntex::service::{ServiceFactory, cfg::SharedCfg, fn_service};
use ntex::time::{Millis, sleep, timeout};
use ntex::util::{ByteString, Bytes, Ready};

use ntex_mqtt::v5::codec::{self, Decoded, Encoded, Packet};
use ntex_mqtt::v5::{self, Handshake, MqttServer, Publish, PublishAck, QoS, client};
use ntex_mqtt::MqttServiceConfig;

struct St;

#[derive(Debug)]
struct TestError;

impl From<()> for TestError {
    fn from(_: ()) -> Self {
        TestError
    }
}

impl TryFrom<TestError> for PublishAck {
    type Error = TestError;

    fn try_from(err: TestError) -> Result<Self, Self::Error> {
        Err(err)
    }
}

fn block_on<F: Future + 'static>(name: &str, f: F) -> F::Output
where
    F::Output: 'static,
{
    ntex::rt::System::build().name(name).testing().build(ntex::rt::DefaultRuntime).block_on(f)
}

fn qos2_publish(id: u16) -> codec::Publish {
    codec::Publish {
        dup: false,
        retain: false,
        qos: QoS::ExactlyOnce,
        topic: ByteString::from("test"),
        packet_id: NonZeroU16::new(id),
        payload_size: 0,
        properties: Default::default(),
    }
}

fn short(d: &Result<Option<Decoded>, String>) -> String {
    match d {
        Ok(Some(Decoded::Packet(Packet::PublishAck(a), _))) => {
            format!("PUBACK id={} {:?}", a.packet_id, a.reason_code)
        }
        Ok(Some(Decoded::Packet(Packet::PublishReceived(a), _))) => {
            format!("PUBREC id={} {:?}", a.packet_id, a.reason_code)
        }
        Ok(Some(Decoded::Packet(Packet::PublishComplete(a), _))) => {
            format!("PUBCOMP id={} {:?}", a.packet_id, a.reason_code)
        }
        Ok(Some(Decoded::Packet(Packet::Disconnect(a), _))) => {
            format!("DISCONNECT {:?} {:?}", a.reason_code, a.reason_string)
        }
        Ok(Some(other)) => format!("{:?}", other),
        Ok(None) => "connection closed".to_string(),
        Err(e) => format!("error/timeout: {e}"),
    }
}

async fn recv(io: &Io, codec: &codec::Codec) -> Result<Option<Decoded>, String> {
    match timeout(Millis(1500), io.recv(codec)).await {
        Ok(Ok(v)) => Ok(v),
        Ok(Err(e)) => Err(format!("{:?}", e)),
        Err(_) => Err("timeout".to_string()),
    }
}

async fn raw_server_vs_client() -> Vec<String> {
    let steps: Arc<Mutex<Vec<String>>> = Arc::new(Mutex::new(Vec::new()));
    let done: Arc<Mutex<bool>> = Arc::new(Mutex::new(false));
    let (steps2, done2) = (steps.clone(), done.clone());

    let srv = server::test_server(async move || {
        let (steps, done) = (steps2.clone(), done2.clone());
        fn_service(move |io: Io| {
            let (steps, done) = (steps.clone(), done.clone());
            async move {
                let codec = codec::Codec::new();
                // handshake
                let c = recv(&io, &codec).await;
                assert!(matches!(c, Ok(Some(Decoded::Packet(Packet::Connect(_), _)))), "{:?}", c);
                io.send(Encoded::Packet(Packet::ConnectAck(Box::default())), &codec)
                    .await
                    .unwrap();

                // 1. PUBLISH QoS2 id=1
                io.send(Encoded::Publish(qos2_publish(1), Some(Bytes::new())), &codec).await.unwrap();
                let r = short(&recv(&io, &codec).await);
                println!("PROBE step1 PUBLISH qos2 id=1 -> client answered: {}", r);
                steps.lock().unwrap().push(r);

                // 2. PUBREL id=1
                io.send(
                    Encoded::Packet(Packet::PublishRelease(codec::PublishAck2 {
                        packet_id: NonZeroU16::new(1).unwrap(),
                        reason_code: codec::PublishAck2Reason::Success,
                        properties: Default::default(),
                        reason_string: None,
                    })),
                    &codec,
                )
                .await
                .unwrap();
                let r = short(&recv(&io, &codec).await);
                println!("PROBE step2 PUBREL id=1 -> client answered: {}", r);
                steps.lock().unwrap().push(r);

                // 3. PUBLISH QoS2 id=1 again
                io.send(Encoded::Publish(qos2_publish(1), Some(Bytes::new())), &codec).await.unwrap();
                let r = short(&recv(&io, &codec).await);
                println!("PROBE step3 PUBLISH qos2 id=1 again -> client answered: {}", r);
                steps.lock().unwrap().push(r);

                *done.lock().unwrap() = true;
                Ok::<_, ()>(())
            }
        })
    });

    let client = client::MqttConnector::new()
        .pipeline(SharedCfg::default())
        .await
        .unwrap()
        .call(client::Connect::new(srv.addr()).client_id("user"))
        .await
        .unwrap();

    async fn publish(pkt: v5::Publish) -> Result<PublishAck, TestError> {
        println!("PROBE client publish handler: qos={:?} id={:?}", pkt.packet().qos, pkt.id());
        Ok(pkt.ack())
    }
    let router = client.resource("test", publish);
    ntex::rt::spawn(async move { let _ = router.start(ntex::service::fn_service(|msg: v5::client::ProtocolMessage| async move { Ok::<_, TestError>(msg.ack()) })).await; });

    for _ in 0..60 {
        if *done.lock().unwrap() {
            break;
        }
        sleep(Millis(100)).await;
    }
    drop(srv);
    sleep(Millis(50)).await;
    let res = steps.lock().unwrap().clone();
    println!("PROBE-RESULT raw server vs v5 client: {:?}", res);
    res
}

#[test]
fn d6_v5_client_qos2_raw_server() {
    let res = block_on("d6_raw", raw_server_vs_client());
    assert_eq!(res.len(), 3, "{:?}", res);
    assert_eq!(res[0], "PUBREC id=1 Success", "QoS2 PUBLISH must be answered with PUBREC");
    assert_eq!(res[1], "PUBCOMP id=1 Success", "PUBREL must be answered with PUBCOMP Success");
    assert_eq!(res[2], "PUBREC id=1 Success", "id must be reusable after PUBCOMP");
}

async fn real_server_vs_client() -> (String, String) {
    let out: Arc<Mutex<Option<(String, String)>>> = Arc::new(Mutex::new(None));
    let out2 = out.clone();

    let srv = server::TestServerBuilder::new(async move || {
        let out = out2.clone();
        MqttServer::new(move |con: Handshake| {
            let sink = con.sink();
            let out = out.clone();
            ntex::rt::spawn(async move {
                sleep(Millis(100)).await;
                let r = timeout(
                    Millis(1500),
                    sink.publish(ByteString::from_static("test")).send_exactly_once(Bytes::new()),
                )
                .await;
                let first = format!("{:?}", r);
                println!("PROBE server send_exactly_once -> {}", first);
                let second = match r {
                    Ok(Ok(received)) => {
                        format!("{:?}", timeout(Millis(1500), received.release()).await)
                    }
                    _ => "not attempted".to_string(),
                };
                println!("PROBE server release() -> {}", second);
                println!("PROBE server sink.is_open() = {}", sink.is_open());
                *out.lock().unwrap() = Some((first, second));
            });
            Ready::Ok::<_, TestError>(con.ack(St))
        })
        .publish(|p: Publish| Ready::Ok::<_, TestError>(p.ack()))
    })
    .config(SharedCfg::new("MQTT").add(MqttServiceConfig::new().set_max_qos(QoS::ExactlyOnce)))
    .start();

    let client = client::MqttConnector::new()
        .pipeline(SharedCfg::default())
        .await
        .unwrap()
        .call(client::Connect::new(srv.addr()).client_id("user"))
        .await
        .unwrap();

    async fn publish(pkt: v5::Publish) -> Result<PublishAck, TestError> {
        println!("PROBE client publish handler: qos={:?} id={:?}", pkt.packet().qos, pkt.id());
        Ok(pkt.ack())
    }
    let router = client.resource("test", publish);
    ntex::rt::spawn(async move { let _ = router.start(ntex::service::fn_service(|msg: v5::client::ProtocolMessage| async move { Ok::<_, TestError>(msg.ack()) })).await; });

    for _ in 0..60 {
        if out.lock().unwrap().is_some() {
            break;
        }
        sleep(Millis(100)).await;
    }
    drop(srv);
    sleep(Millis(50)).await;
    let res = out.lock().unwrap().clone().unwrap_or(("unresolved".into(), "unresolved".into()));
    println!("PROBE-RESULT real server -> v5 client QoS2: send={} release={}", res.0, res.1);
    res
}

#[test]
fn d6_v5_client_qos2_real_server() {
    let res = block_on("d6_real", real_server_vs_client());
    assert!(res.0.starts_with("Ok(Ok("), "send_exactly_once to a v5 client failed: {}", res.0);
    assert_eq!(res.1, "Ok(Ok(()))", "release() failed");
}

//! D5 (C11): server side, inbound QoS2 packet id life cycle.
//!
//! Raw peer: PUBLISH QoS2 id=1 -> PUBREC; PUBREL id=1 -> PUBCOMP; then a *new*
//! PUBLISH QoS2 id=1 (dup=false). After PUBCOMP the id is free again
//! (MQTT 5 4.3.3), so the expected answer is PUBREC id=1 Success.
//!
//! Suspected (v5): PUBREL goes through `control_pkt(pkt, 0)`, the id is never
//! removed from `inflight`, so the second publish is answered with
//! PUBACK PacketIdentifierInUse (and the id also keeps counting against
//! Receive Maximum for the rest of the connection).
//! v3 server is checked as a control (expected fine: `ProtocolMessageKind::PublishRelease`
//! removes the id).
use std::future::Future;
use std::num::NonZeroU16;

use ntex::io::Io;
use ntex::server;
use ntex::service::cfg::SharedCfg;
use ntex::time::{Millis, sleep, timeout};
use ntex::util::{ByteString, Ready};

use ntex_mqtt::{MqttServiceConfig, QoS};

fn block_on<F: Future + 'static>(name: &str, f: F) -> F::Output
where
    F::Output: 'static,
{
    ntex::rt::System::build().name(name).testing().build(ntex::rt::DefaultRuntime).block_on(f)
}

mod t5 {
    use super::*;
    use ntex_mqtt::v5::codec::{self, Decoded, Encoded, Packet};
    use ntex_mqtt::v5::{Handshake, HandshakeAck, MqttServer, ProtocolMessage, Publish, PublishAck};

    pub struct St;

    #[derive(Debug)]
    pub struct TestError;

    impl From<()> for TestError {
        fn from(_: ()) -> Self {
            TestError
        }
    }

    impl TryFrom<TestError> for PublishAck {
        type Error = TestError;

        fn try_from(err: TestError) -> Result<Self, Self::Error> {
            Err(err)
        }
    }

    async fn handshake(packet: Handshake) -> Result<HandshakeAck<St>, TestError> {
        Ok(packet.ack(St))
    }

    fn qos2_publish(id: u16) -> codec::Publish {
        codec::Publish {
            dup: false,
            retain: false,
            qos: QoS::ExactlyOnce,
            topic: ByteString::from("test"),
            packet_id: NonZeroU16::new(id),
            payload_size: 0,
            properties: Default::default(),
        }
    }

    fn pubrel(id: u16) -> Packet {
        Packet::PublishRelease(codec::PublishAck2 {
            packet_id: NonZeroU16::new(id).unwrap(),
            reason_code: codec::PublishAck2Reason::Success,
            properties: Default::default(),
            reason_string: None,
        })
    }

    async fn recv(io: &Io, codec: &codec::Codec) -> String {
        match timeout(Millis(1500), io.recv(codec)).await {
            Ok(Ok(Some(Decoded::Packet(Packet::PublishAck(a), _)))) => {
                format!("PUBACK id={} {:?}", a.packet_id, a.reason_code)
            }
            Ok(Ok(Some(Decoded::Packet(Packet::PublishReceived(a), _)))) => {
                format!("PUBREC id={} {:?}", a.packet_id, a.reason_code)
            }
            Ok(Ok(Some(Decoded::Packet(Packet::PublishComplete(a), _)))) => {
                format!("PUBCOMP id={} {:?}", a.packet_id, a.reason_code)
            }
            Ok(Ok(Some(Decoded::Packet(Packet::Disconnect(a), _)))) => {
                format!("DISCONNECT {:?} {:?}", a.reason_code, a.reason_string)
            }
            Ok(Ok(Some(other))) => format!("{:?}", other),
            Ok(Ok(None)) => "connection closed".to_string(),
            Ok(Err(e)) => format!("error {:?}", e),
            Err(_) => "timeout".to_string(),
        }
    }

    /// `receive_max`: server's Receive Maximum (0 = default)
    pub async fn run(rounds: u16, receive_max: u16) -> Vec<String> {
        let srv = server::TestServerBuilder::new(async move || {
            MqttServer::new(handshake)
                .protocol(async move |msg| match msg {
                    ProtocolMessage::PublishRelease(msg) => Ok::<_, TestError>(msg.ack()),
                    _ => Ok(msg.disconnect()),
                })
                .publish(|p: Publish| Ready::Ok::<_, TestError>(p.ack()))
        })
        .config(SharedCfg::new("MQTT").add({
            let cfg = MqttServiceConfig::new().set_max_qos(QoS::ExactlyOnce);
            if receive_max != 0 { cfg.set_max_receive(receive_max) } else { cfg }
        }))
        .start();

        let io = srv.connect().await.unwrap();
        let codec = codec::Codec::new();
        io.send(Encoded::Packet(codec::Connect::default().client_id("user").into()), &codec)
            .await
            .unwrap();
        let _ = io.recv(&codec).await.unwrap().unwrap();

        let mut log = Vec::new();
        for round in 0..rounds {
            // with receive_max set we use distinct ids, otherwise always id=1
            let id = if receive_max != 0 { round + 1 } else { 1 };
            io.send(Encoded::Publish(qos2_publish(id), None), &codec).await.unwrap();
            let r = recv(&io, &codec).await;
            println!("PROBE v5 round {} PUBLISH qos2 id={} -> {}", round, id, r);
            let stop = !r.starts_with("PUBREC");
            log.push(r);
            if stop {
                break;
            }
            io.send(Encoded::Packet(pubrel(id)), &codec).await.unwrap();
            let r = recv(&io, &codec).await;
            println!("PROBE v5 round {} PUBREL id={} -> {}", round, id, r);
            log.push(r);
        }
        drop(io);
        drop(srv);
        sleep(Millis(50)).await;
        log
    }
}

mod t3 {
    use super::*;
    use ntex_mqtt::v3::codec::{self, Decoded, Encoded, Packet};
    use ntex_mqtt::v3::{Handshake, HandshakeAck, MqttServer, ProtocolMessage};

    pub struct St;

    async fn handshake(packet: Handshake) -> Result<HandshakeAck<St>, ()> {
        Ok(packet.ack(St, false))
    }

    async fn recv(io: &Io, codec: &codec::Codec) -> String {
        match timeout(Millis(1500), io.recv(codec)).await {
            Ok(Ok(Some(Decoded::Packet(p, _)))) => format!("{:?}", p),
            Ok(Ok(Some(other))) => format!("{:?}", other),
            Ok(Ok(None)) => "connection closed".to_string(),
            Ok(Err(e)) => format!("error {:?}", e),
            Err(_) => "timeout".to_string(),
        }
    }

    pub async fn run(rounds: u16) -> Vec<String> {
        let srv = server::TestServerBuilder::new(async move || {
            MqttServer::new(handshake)
                .protocol(async move |msg| {
                    if let ProtocolMessage::PublishRelease(msg) = msg {
                        Ok::<_, ()>(msg.ack())
                    } else {
                        Ok(msg.disconnect())
                    }
                })
                .publish(async |_| Ok(()))
        })
        .config(
            SharedCfg::new("MQTT").add(MqttServiceConfig::new().set_max_qos(QoS::ExactlyOnce)),
        )
        .start();

        let io = srv.connect().await.unwrap();
        let codec = codec::Codec::default();
        io.send(
            Encoded::Packet(Packet::Connect(codec::Connect::default().client_id("user").into())),
            &codec,
        )
        .await
        .unwrap();
        io.recv(&codec).await.unwrap().unwrap();

        let id = NonZeroU16::new(1).unwrap();
        let mut log = Vec::new();
        for round in 0..rounds {
            io.send(
                Encoded::Publish(
                    codec::Publish {
                        dup: false,
                        retain: false,
                        qos: codec::QoS::ExactlyOnce,
                        topic: ByteString::from("test"),
                        packet_id: Some(id),
                        payload_size: 0,
                    },
                    None,
                ),
                &codec,
            )
            .await
            .unwrap();
            let r = recv(&io, &codec).await;
            println!("PROBE v3 round {} PUBLISH qos2 id=1 -> {}", round, r);
            let stop = !r.starts_with("PublishReceived");
            log.push(r);
            if stop {
                break;
            }
            io.send(Encoded::Packet(Packet::PublishRelease { packet_id: id }), &codec)
                .await
                .unwrap();
            let r = recv(&io, &codec).await;
            println!("PROBE v3 round {} PUBREL id=1 -> {}", round, r);
            log.push(r);
        }
        drop(io);
        drop(srv);
        sleep(Millis(50)).await;
        log
    }
}

#[test]
fn d5_v5_server_qos2_id_reuse() {
    let log = block_on("d5_v5", t5::run(2, 0));
    println!("PROBE-RESULT v5 server, id=1 used twice: {:?}", log);
    assert_eq!(
        log,
        vec!["PUBREC id=1 Success", "PUBCOMP id=1 Success", "PUBREC id=1 Success", "PUBCOMP id=1 Success"]
    );
}

/// Consequence: completed QoS2 exchanges keep counting against Receive Maximum.
/// Server Receive Maximum = 2, three *sequential, fully completed* QoS2
/// exchanges with ids 1,2,3 (never more than one in flight).
#[test]
fn d5_v5_server_qos2_receive_max_leak() {
    let log = block_on("d5_v5_rm", t5::run(3, 2));
    println!("PROBE-RESULT v5 server, receive max 2, sequential ids 1,2,3: {:?}", log);
    assert_eq!(log.len(), 6, "{:?}", log);
    assert_eq!(log[4], "PUBREC id=3 Success");
    assert_eq!(log[5], "PUBCOMP id=3 Success");
}

#[test]
fn d5_v3_server_qos2_id_reuse() {
    let log = block_on("d5_v3", t3::run(2));
    println!("PROBE-RESULT v3 server, id=1 used twice: {:?}", log);
    assert_eq!(
        log,
        vec![
            "PublishReceived { packet_id: 1 }",
            "PublishComplete { packet_id: 1 }",
            "PublishReceived { packet_id: 1 }",
            "PublishComplete { packet_id: 1 }"
        ]
    );
}

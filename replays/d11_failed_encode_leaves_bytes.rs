//! D11 (C08/C09): an encode call that returns `Err` has already written bytes.
//!
//! Part 1 uses the codecs directly (`Encoder::encodev(&codec, item, &mut BytePages)`):
//! the destination already holds a valid PINGREQ (2 bytes); the probed item is
//! encoded after it. Correct behaviour: `Err(..)` => `dst.len()` unchanged.
//! For every failing case a valid PINGRESP is appended afterwards and the whole
//! buffer is decoded with a fresh codec, to show what a peer would make of it.
//!
//! Part 2 is end to end: a server-side sink is asked to send a malformed QoS0
//! publish (`publish_pkt(Publish{ qos: AtMostOnce, packet_id: Some(7), .. })`),
//! gets `Err(Encode(MalformedPacket))`, then sends a valid QoS0 publish. Correct
//! behaviour: the peer receives the valid publish. Suspected: the header bytes of
//! the failed publish are on the wire in front of it and the peer decodes garbage.
use std::future::Future;
use std::num::NonZeroU16;
use std::sync::{Arc, Mutex};

use ntex::codec::{BytesCodec, Decoder, Encoder};
use ntex::server;
use ntex::time::{Millis, sleep, timeout};
use ntex::util::{BytePages, ByteString, Bytes, BytesMut, Ready};

use ntex_mqtt::error::EncodeError;
use ntex_mqtt::{v3, v5};

fn block_on<F: Future + 'static>(name: &str, f: F) -> F::Output
where
    F::Output: 'static,
{
    ntex::rt::System::build().name(name).testing().build(ntex::rt::DefaultRuntime).block_on(f)
}

fn hex(b: &[u8]) -> String {
    let s = b.iter().take(24).map(|b| format!("{:02x}", b)).collect::<Vec<_>>().join(" ");
    if b.len() > 24 { format!("{} .. ({} bytes)", s, b.len()) } else { s }
}

fn long(n: usize) -> ByteString {
    ByteString::from("x".repeat(n))
}

fn id(v: u16) -> NonZeroU16 {
    NonZeroU16::new(v).unwrap()
}

/// one probe result: (name, result, bytes left behind)
type Row = (String, Result<(), EncodeError>, usize);

fn report(rows: &[Row]) -> Vec<String> {
    let mut bad = Vec::new();
    for (name, res, left) in rows {
        if res.is_err() && *left != 0 {
            bad.push(format!("{} -> {:?} left {} bytes", name, res, left));
        }
    }
    bad
}

// ---------------------------------------------------------------- v5, codec

fn probe_v5(name: &str, item: v5::codec::Encoded) -> Row {
    use v5::codec::{Codec, Encoded, Packet};
    let codec = Codec::new();
    let mut dst = BytePages::default();
    codec.encodev(Encoded::Packet(Packet::PingRequest), &mut dst).unwrap();
    let before = dst.len();
    let res = codec.encodev(item, &mut dst);
    let after = dst.len();
    let left = after - before;
    println!(
        "PROBE-RESULT v5 {:<44} -> {:?} | dst.len() {} -> {} ({} bytes left behind)",
        name,
        res,
        before,
        after,
        left
    );
    if res.is_err() && left != 0 {
        // what would a peer make of PINGREQ + leftover + PINGRESP ?
        let follow = codec.encodev(Encoded::Packet(Packet::PingResponse), &mut dst);
        let bytes = dst.freeze();
        println!("PROBE    wire = [{}]   (following PINGRESP encode -> {:?})", hex(&bytes), follow);
        let dec = Codec::new();
        let mut src = BytesMut::from(bytes);
        for _ in 0..4 {
            let r = dec.decode(&mut src);
            let stop = !matches!(r, Ok(Some(_)));
            let s = format!("{:?}", r);
            println!("PROBE    peer decode -> {} [{} bytes left]", &s[..s.len().min(120)], src.len());
            if stop {
                break;
            }
        }
    }
    (name.to_string(), res, left)
}

fn v5_publish(qos: v5::codec::QoS, pid: Option<u16>, topic: ByteString) -> v5::codec::Publish {
    v5::codec::Publish {
        dup: false,
        retain: false,
        qos,
        topic,
        packet_id: pid.map(id),
        payload_size: 0,
        properties: Default::default(),
    }
}

#[test]
fn d11_v5_publish_packet_id_rules() {
    use v5::codec::{Encoded, QoS};
    let rows = vec![
        // (a)
        probe_v5(
            "Publish qos0 packet_id=Some(1)",
            Encoded::Publish(v5_publish(QoS::AtMostOnce, Some(1), "t".into()), None),
        ),
        // (b)
        probe_v5(
            "Publish qos1 packet_id=None",
            Encoded::Publish(v5_publish(QoS::AtLeastOnce, None, "t".into()), None),
        ),
        probe_v5(
            "Publish qos2 packet_id=None",
            Encoded::Publish(v5_publish(QoS::ExactlyOnce, None, "t".into()), None),
        ),
        // control
        probe_v5(
            "Publish qos1 packet_id=Some(1) (valid)",
            Encoded::Publish(v5_publish(QoS::AtLeastOnce, Some(1), "t".into()), Some(Bytes::new())),
        ),
    ];
    assert!(matches!(rows[0].1, Err(EncodeError::MalformedPacket)), "{:?}", rows[0].1);
    assert!(matches!(rows[1].1, Err(EncodeError::PacketIdRequired)), "{:?}", rows[1].1);
    assert!(rows[3].1.is_ok());
    let bad = report(&rows);
    assert!(bad.is_empty(), "failed encode left bytes in dst: {:#?}", bad);
}

#[test]
fn d11_v5_overlong_strings() {
    use v5::codec::{
        Auth, ConnectAck, Disconnect, DisconnectReasonCode, Encoded, Packet, PublishAck,
        PublishAck2, PublishAck2Reason, PublishAckReason, QoS, UnsubscribeAck,
    };
    let mut rows = Vec::new();
    // (c) topic
    rows.push(probe_v5(
        "Publish qos0 topic 70000 bytes",
        Encoded::Publish(v5_publish(QoS::AtMostOnce, None, long(70000)), None),
    ));
    rows.push(probe_v5(
        "Publish qos1 topic 70000 bytes",
        Encoded::Publish(v5_publish(QoS::AtLeastOnce, Some(1), long(70000)), None),
    ));
    let mut p = v5_publish(QoS::AtMostOnce, None, "t".into());
    p.properties.content_type = Some(long(70000));
    rows.push(probe_v5("Publish content_type 70000 bytes", Encoded::Publish(p, None)));
    let mut p = v5_publish(QoS::AtMostOnce, None, "t".into());
    p.properties.response_topic = Some(long(70000));
    rows.push(probe_v5("Publish response_topic 70000 bytes", Encoded::Publish(p, None)));
    let mut p = v5_publish(QoS::AtMostOnce, None, "t".into());
    p.properties.user_properties.push(("k".into(), long(70000)));
    rows.push(probe_v5("Publish user property value 70000 bytes", Encoded::Publish(p, None)));
    let mut p = v5_publish(QoS::AtMostOnce, None, "t".into());
    p.properties.correlation_data = Some(Bytes::from(vec![1u8; 70000]));
    rows.push(probe_v5("Publish correlation_data 70000 bytes", Encoded::Publish(p, None)));

    // (c) reason strings
    let ack = PublishAck {
        packet_id: id(1),
        reason_code: PublishAckReason::UnspecifiedError,
        properties: Default::default(),
        reason_string: Some(long(70000)),
    };
    rows.push(probe_v5("PublishAck reason_string 70000 bytes", Encoded::Packet(Packet::PublishAck(ack.clone()))));
    rows.push(probe_v5("PublishReceived reason_string 70000 bytes", Encoded::Packet(Packet::PublishReceived(ack))));
    let ack = PublishAck {
        packet_id: id(1),
        reason_code: PublishAckReason::UnspecifiedError,
        properties: vec![("k".into(), long(70000))],
        reason_string: None,
    };
    rows.push(probe_v5("PublishAck user property value 70000 bytes", Encoded::Packet(Packet::PublishAck(ack))));
    let ack2 = PublishAck2 {
        packet_id: id(1),
        reason_code: PublishAck2Reason::PacketIdNotFound,
        properties: Default::default(),
        reason_string: Some(long(70000)),
    };
    rows.push(probe_v5("PublishRelease reason_string 70000 bytes", Encoded::Packet(Packet::PublishRelease(ack2.clone()))));
    rows.push(probe_v5("PublishComplete reason_string 70000 bytes", Encoded::Packet(Packet::PublishComplete(ack2))));

    let mut d = Disconnect::new(DisconnectReasonCode::UnspecifiedError);
    d.reason_string = Some(long(70000));
    rows.push(probe_v5("Disconnect reason_string 70000 bytes", Encoded::Packet(Packet::Disconnect(d))));
    let mut d = Disconnect::new(DisconnectReasonCode::UseAnotherServer);
    d.server_reference = Some(long(70000));
    rows.push(probe_v5("Disconnect server_reference 70000 bytes", Encoded::Packet(Packet::Disconnect(d))));

    let a = Auth { reason_string: Some(long(70000)), ..Default::default() };
    rows.push(probe_v5("Auth reason_string 70000 bytes", Encoded::Packet(Packet::Auth(a))));
    let c = ConnectAck { reason_string: Some(long(70000)), ..Default::default() };
    rows.push(probe_v5("ConnectAck reason_string 70000 bytes", Encoded::Packet(Packet::ConnectAck(Box::new(c)))));
    let u = UnsubscribeAck {
        packet_id: id(1),
        properties: Default::default(),
        reason_string: Some(long(70000)),
        status: vec![],
    };
    rows.push(probe_v5("UnsubscribeAck reason_string 70000 bytes", Encoded::Packet(Packet::UnsubscribeAck(u))));

    for r in &rows {
        if let Err(e) = &r.1 {
            assert!(matches!(e, EncodeError::InvalidLength), "{}: {:?}", r.0, e);
        }
    }
    let bad = report(&rows);
    assert!(bad.is_empty(), "failed encode left bytes in dst: {:#?}", bad);
}

#[test]
fn d11_v5_subscribe_overlong_filter() {
    use v5::codec::{Connect, Encoded, Packet, Subscribe, SubscriptionOptions, Unsubscribe};
    let mut rows = Vec::new();
    // (d)
    let s = Subscribe {
        packet_id: id(1),
        id: None,
        user_properties: Default::default(),
        topic_filters: vec![("ok".into(), SubscriptionOptions::default()), (long(70000), SubscriptionOptions::default())],
    };
    rows.push(probe_v5("Subscribe 2nd topic filter 70000 bytes", Encoded::Packet(Packet::Subscribe(s))));
    let u = Unsubscribe {
        packet_id: id(1),
        user_properties: Default::default(),
        topic_filters: vec!["ok".into(), long(70000)],
    };
    rows.push(probe_v5("Unsubscribe 2nd topic filter 70000 bytes", Encoded::Packet(Packet::Unsubscribe(u))));
    let c = Connect::default().client_id(long(70000));
    rows.push(probe_v5("Connect client_id 70000 bytes", Encoded::Packet(Packet::Connect(Box::new(c)))));
    let bad = report(&rows);
    assert!(bad.is_empty(), "failed encode left bytes in dst: {:#?}", bad);
}

// ---------------------------------------------------------------- v3, codec

fn probe_v3(name: &str, item: v3::codec::Encoded) -> Row {
    use v3::codec::{Codec, Encoded, Packet};
    let codec = Codec::new();
    let mut dst = BytePages::default();
    codec.encodev(Encoded::Packet(Packet::PingRequest), &mut dst).unwrap();
    let before = dst.len();
    let res = codec.encodev(item, &mut dst);
    let after = dst.len();
    let left = after - before;
    println!(
        "PROBE-RESULT v3 {:<44} -> {:?} | dst.len() {} -> {} ({} bytes left behind)",
        name,
        res,
        before,
        after,
        left
    );
    if res.is_err() && left != 0 {
        let follow = codec.encodev(Encoded::Packet(Packet::PingResponse), &mut dst);
        let bytes = dst.freeze();
        println!("PROBE    wire = [{}]   (following PINGRESP encode -> {:?})", hex(&bytes), follow);
        let dec = Codec::new();
        let mut src = BytesMut::from(bytes);
        for _ in 0..4 {
            let r = dec.decode(&mut src);
            let stop = !matches!(r, Ok(Some(_)));
            let s = format!("{:?}", r);
            println!("PROBE    peer decode -> {} [{} bytes left]", &s[..s.len().min(120)], src.len());
            if stop {
                break;
            }
        }
    }
    (name.to_string(), res, left)
}

fn v3_publish(qos: v3::codec::QoS, pid: Option<u16>, topic: ByteString) -> v3::codec::Publish {
    v3::codec::Publish { dup: false, retain: false, qos, topic, packet_id: pid.map(id), payload_size: 0 }
}

#[test]
fn d11_v3_publish_and_overlong_strings() {
    use v3::codec::{Connect, Encoded, Packet, QoS};
    let mut rows = Vec::new();
    rows.push(probe_v3(
        "Publish qos0 packet_id=Some(1)",
        Encoded::Publish(v3_publish(QoS::AtMostOnce, Some(1), "t".into()), None),
    ));
    rows.push(probe_v3(
        "Publish qos1 packet_id=None",
        Encoded::Publish(v3_publish(QoS::AtLeastOnce, None, "t".into()), None),
    ));
    rows.push(probe_v3(
        "Publish qos0 topic 70000 bytes",
        Encoded::Publish(v3_publish(QoS::AtMostOnce, None, long(70000)), None),
    ));
    rows.push(probe_v3(
        "Publish qos1 topic 70000 bytes",
        Encoded::Publish(v3_publish(QoS::AtLeastOnce, Some(1), long(70000)), None),
    ));
    rows.push(probe_v3(
        "Subscribe 2nd topic filter 70000 bytes",
        Encoded::Packet(Packet::Subscribe {
            packet_id: id(1),
            topic_filters: vec![("ok".into(), QoS::AtMostOnce), (long(70000), QoS::AtMostOnce)],
        }),
    ));
    rows.push(probe_v3(
        "Unsubscribe 2nd topic filter 70000 bytes",
        Encoded::Packet(Packet::Unsubscribe {
            packet_id: id(1),
            topic_filters: vec!["ok".into(), long(70000)],
        }),
    ));
    let c = Connect::default().client_id(long(70000));
    rows.push(probe_v3("Connect client_id 70000 bytes", Encoded::Packet(Packet::Connect(Box::new(c)))));

    assert!(matches!(rows[0].1, Err(EncodeError::MalformedPacket)), "{:?}", rows[0].1);
    assert!(matches!(rows[1].1, Err(EncodeError::PacketIdRequired)), "{:?}", rows[1].1);
    let bad = report(&rows);
    assert!(bad.is_empty(), "failed encode left bytes in dst: {:#?}", bad);
}

// ---------------------------------------------------------------- end to end

#[derive(Debug, Default, Clone)]
struct E2e {
    bad_send: Option<String>,
    good_send: Option<String>,
    raw: Vec<u8>,
    decoded: Vec<String>,
}

async fn collect(io: &ntex::io::Io, out: &Arc<Mutex<E2e>>) {
    loop {
        match timeout(Millis(1000), io.recv(&BytesCodec)).await {
            Ok(Ok(Some(b))) => out.lock().unwrap().raw.extend_from_slice(&b),
            Ok(Ok(None)) => {
                println!("PROBE peer: connection closed by server");
                break;
            }
            Ok(Err(e)) => {
                println!("PROBE peer: recv error {:?}", e);
                break;
            }
            Err(_) => break,
        }
    }
}

struct St;

#[derive(Debug)]
struct TestError;

impl From<()> for TestError {
    fn from(_: ()) -> Self {
        TestError
    }
}

impl TryFrom<TestError> for v5::PublishAck {
    type Error = TestError;

    fn try_from(err: TestError) -> Result<Self, Self::Error> {
        Err(err)
    }
}

async fn e2e_v5() -> E2e {
    use v5::codec::{self, Encoded};
    let out: Arc<Mutex<E2e>> = Arc::new(Mutex::new(E2e::default()));
    let out2 = out.clone();

    let srv = server::test_server(async move || {
        let out = out2.clone();
        v5::MqttServer::new(move |con: v5::Handshake| {
            let sink = con.sink();
            let out = out.clone();
            ntex::rt::spawn(async move {
                sleep(Millis(100)).await;
                let r = sink
                    .publish_pkt(v5_publish(codec::QoS::AtMostOnce, Some(7), "bad".into()))
                    .send_at_most_once(Bytes::from_static(b"x"));
                println!("PROBE sink: malformed qos0 publish (packet_id Some(7)) -> {:?}", r);
                out.lock().unwrap().bad_send = Some(format!("{:?}", r));
                let r = sink
                    .publish(ByteString::from_static("good"))
                    .send_at_most_once(Bytes::from_static(b"hello"));
                println!("PROBE sink: valid qos0 publish -> {:?}", r);
                out.lock().unwrap().good_send = Some(format!("{:?}", r));
            });
            Ready::Ok::<_, TestError>(con.ack(St))
        })
        .publish(|p: v5::Publish| Ready::Ok::<_, TestError>(p.ack()))
    });

    let io = srv.connect().await.unwrap();
    let codec = codec::Codec::new();
    io.send(Encoded::Packet(codec::Connect::default().client_id("user").into()), &codec)
        .await
        .unwrap();
    let _ = io.recv(&codec).await.unwrap().unwrap();
    collect(&io, &out).await;

    let raw = out.lock().unwrap().raw.clone();
    println!("PROBE peer raw bytes after CONNACK = [{}]", hex(&raw));
    let dec = codec::Codec::new();
    let mut src = BytesMut::from(&raw[..]);
    for _ in 0..4 {
        let r = dec.decode(&mut src);
        let stop = !matches!(r, Ok(Some(_)));
        println!("PROBE peer decode -> {:?} [{} bytes left]", r, src.len());
        out.lock().unwrap().decoded.push(format!("{:?}", r));
        if stop {
            break;
        }
    }
    drop(io);
    drop(srv);
    sleep(Millis(50)).await;
    let res = out.lock().unwrap().clone();
    res
}

async fn e2e_v3() -> E2e {
    use v3::codec::{self, Encoded};
    let out: Arc<Mutex<E2e>> = Arc::new(Mutex::new(E2e::default()));
    let out2 = out.clone();

    let srv = server::test_server(async move || {
        let out = out2.clone();
        v3::MqttServer::new(move |con: v3::Handshake| {
            let sink = con.sink();
            let out = out.clone();
            ntex::rt::spawn(async move {
                sleep(Millis(100)).await;
                let r = sink
                    .publish_pkt(v3_publish(codec::QoS::AtMostOnce, Some(7), "bad".into()))
                    .send_at_most_once(Bytes::from_static(b"x"));
                println!("PROBE sink: malformed qos0 publish (packet_id Some(7)) -> {:?}", r);
                out.lock().unwrap().bad_send = Some(format!("{:?}", r));
                let r = sink
                    .publish(ByteString::from_static("good"))
                    .send_at_most_once(Bytes::from_static(b"hello"));
                println!("PROBE sink: valid qos0 publish -> {:?}", r);
                out.lock().unwrap().good_send = Some(format!("{:?}", r));
            });
            Ready::Ok::<_, ()>(con.ack(St, false))
        })
        .publish(|_| Ready::Ok::<_, ()>(()))
    });

    let io = srv.connect().await.unwrap();
    let codec = codec::Codec::new();
    io.send(Encoded::Packet(codec::Connect::default().client_id("user").into()), &codec)
        .await
        .unwrap();
    let _ = io.recv(&codec).await.unwrap().unwrap();
    collect(&io, &out).await;

    let raw = out.lock().unwrap().raw.clone();
    println!("PROBE peer raw bytes after CONNACK = [{}]", hex(&raw));
    let dec = codec::Codec::new();
    let mut src = BytesMut::from(&raw[..]);
    for _ in 0..4 {
        let r = dec.decode(&mut src);
        let stop = !matches!(r, Ok(Some(_)));
        println!("PROBE peer decode -> {:?} [{} bytes left]", r, src.len());
        out.lock().unwrap().decoded.push(format!("{:?}", r));
        if stop {
            break;
        }
    }
    drop(io);
    drop(srv);
    sleep(Millis(50)).await;
    let res = out.lock().unwrap().clone();
    res
}

fn check_e2e(name: &str, res: &E2e, expected_wire: &[u8]) {
    println!(
        "PROBE-RESULT {} e2e: bad send={:?} good send={:?} wire=[{}] peer decodes {:?}",
        name,
        res.bad_send,
        res.good_send,
        hex(&res.raw),
        res.decoded
    );
    assert!(res.bad_send.as_deref().unwrap().contains("MalformedPacket"));
    assert_eq!(res.good_send.as_deref(), Some("Ok(())"));
    assert_eq!(
        hex(&res.raw),
        hex(expected_wire),
        "{}: the wire carries more than the one valid PUBLISH",
        name
    );
    assert!(
        res.decoded[0].contains("\"good\""),
        "{}: first packet decoded by the peer is not the valid publish: {}",
        name,
        res.decoded[0]
    );
}

#[test]
fn d11_v5_e2e_failed_publish_then_valid_publish() {
    let res = block_on("d11_v5_e2e", e2e_v5());
    // 30 0c 00 04 g o o d 00 h e l l o
    check_e2e("v5", &res, b"\x30\x0c\x00\x04good\x00hello");
}

#[test]
fn d11_v3_e2e_failed_publish_then_valid_publish() {
    let res = block_on("d11_v3_e2e", e2e_v3());
    check_e2e("v3", &res, b"\x30\x0b\x00\x04goodhello");
}

//! D2 (C06/C08), v5: a *streaming* publish whose header fails to encode
//! (packet larger than the peer's Maximum Packet Size) leaves
//! `MqttShared::streaming_remaining` set, because `enable_streaming()` runs
//! before the encode is attempted and is not rolled back on error.
//!
//! Correct behaviour: the failed send reports the encode error and a later
//! ordinary small publish on the same sink succeeds.
//! Suspected: every later send fails with `Encode(ExpectPayload)` (QoS1 streaming)
//! or the connection is force-closed by `StreamingPayload::drop` (QoS0 streaming).
use std::future::Future;
use std::num::NonZeroU32;
use std::sync::{Arc, Mutex};

use ntex::server;
use ntex::time::{Millis, sleep, timeout};
use ntex::util::{ByteString, Bytes, Ready};

use ntex_mqtt::v5::codec::{self, Decoded, Encoded, Packet};
use ntex_mqtt::v5::{Handshake, MqttServer, MqttSink, Publish, PublishAck};

struct St;

#[derive(Debug)]
struct TestError;

impl From<()> for TestError {
    fn from(_: ()) -> Self {
        TestError
    }
}

impl TryFrom<TestError> for PublishAck {
    type Error = TestError;

    fn try_from(err: TestError) -> Result<Self, Self::Error> {
        Err(err)
    }
}

fn block_on<F: Future + 'static>(name: &str, f: F) -> F::Output
where
    F::Output: 'static,
{
    ntex::rt::System::build().name(name).testing().build(ntex::rt::DefaultRuntime).block_on(f)
}

fn oversize(sink: &MqttSink) -> ntex_mqtt::v5::PublishBuilder {
    // same recipe as test_sink_encoder_error_pub_qos1 in tests/test_server_v5.rs
    sink.publish("test").properties(|props| {
        props.user_properties.push((
            "ssssssssssssssssssssssssssssssssssss".into(),
            "ssssssssssssssssssssssssssssssssssss".into(),
        ));
    })
}

#[derive(Clone, Copy, Debug)]
enum Mode {
    StreamQos0,
    StreamQos1,
    /// control: ordinary (non streaming) oversize send, expected to be harmless
    PlainQos1,
}

/// returns (result of the failing send, result of following qos0 send, result of following qos1 send)
async fn run(mode: Mode) -> (String, String, String) {
    let out: Arc<Mutex<Option<(String, String, String)>>> = Arc::new(Mutex::new(None));
    let out2 = out.clone();

    let srv = server::test_server(async move || {
        let out = out2.clone();
        MqttServer::new(move |con: Handshake| {
            let sink = con.sink();
            let out = out.clone();
            ntex::rt::spawn(async move {
                sleep(Millis(100)).await;

                // 1. the failing send
                let first = match mode {
                    Mode::StreamQos0 => {
                        format!("{:?}", oversize(&sink).stream_at_most_once(10).map(|_| "stream"))
                    }
                    Mode::StreamQos1 => {
                        let (fut, stream) = oversize(&sink).stream_at_least_once(10);
                        let r = timeout(Millis(1000), fut).await;
                        drop(stream);
                        format!("{:?}", r)
                    }
                    Mode::PlainQos1 => {
                        let r = timeout(
                            Millis(1000),
                            oversize(&sink).send_at_least_once(Bytes::new()),
                        )
                        .await;
                        format!("{:?}", r)
                    }
                };
                println!("PROBE {:?}: oversize send -> {}", mode, first);
                println!("PROBE {:?}: sink.is_open() after failed send = {}", mode, sink.is_open());

                // 2. small valid QoS0 publish
                let second = format!(
                    "{:?}",
                    sink.publish(ByteString::from_static("a")).send_at_most_once(Bytes::new())
                );
                println!("PROBE {:?}: following small send_at_most_once -> {}", mode, second);

                // 3. small valid QoS1 publish
                let third = format!(
                    "{:?}",
                    timeout(
                        Millis(1000),
                        sink.publish(ByteString::from_static("b")).send_at_least_once(Bytes::new())
                    )
                    .await
                );
                println!("PROBE {:?}: following small send_at_least_once -> {}", mode, third);
                *out.lock().unwrap() = Some((first, second, third));
            });
            Ready::Ok::<_, TestError>(con.ack(St))
        })
        .publish(|p: Publish| Ready::Ok::<_, TestError>(p.ack()))
    });

    // raw peer, announces Maximum Packet Size = 30
    let io = srv.connect().await.unwrap();
    let codec = codec::Codec::new();
    let mut connect = codec::Connect::default().client_id("user");
    connect.max_packet_size = NonZeroU32::new(30);
    io.send(Encoded::Packet(connect.into()), &codec).await.unwrap();
    let _ = io.recv(&codec).await.unwrap().unwrap();

    // ack every QoS1 publish we get, for up to ~3s
    loop {
        match timeout(Millis(3000), io.recv(&codec)).await {
            Ok(Ok(Some(Decoded::Publish(p, _, _)))) => {
                println!("PROBE peer got PUBLISH topic={:?} qos={:?}", p.topic, p.qos);
                if let Some(id) = p.packet_id {
                    io.send(
                        Encoded::Packet(Packet::PublishAck(codec::PublishAck {
                            packet_id: id,
                            reason_code: codec::PublishAckReason::Success,
                            properties: Default::default(),
                            reason_string: None,
                        })),
                        &codec,
                    )
                    .await
                    .unwrap();
                }
            }
            Ok(Ok(Some(other))) => println!("PROBE peer got {:?}", other),
            Ok(Ok(None)) => {
                println!("PROBE peer: connection closed by server");
                break;
            }
            Ok(Err(e)) => {
                println!("PROBE peer: recv error {:?}", e);
                break;
            }
            Err(_) => break,
        }
        if out.lock().unwrap().is_some() {
            break;
        }
    }
    for _ in 0..30 {
        if out.lock().unwrap().is_some() {
            break;
        }
        sleep(Millis(100)).await;
    }
    drop(io);
    drop(srv);
    sleep(Millis(50)).await;
    let res = out.lock().unwrap().clone().unwrap_or_else(|| {
        ("unresolved".into(), "unresolved".into(), "unresolved".into())
    });
    println!("PROBE-RESULT {:?}: failing={} | then qos0={} | then qos1={}", mode, res.0, res.1, res.2);
    res
}

fn check(res: (String, String, String)) {
    assert!(res.0.contains("OverMaxPacketSize"), "first send should fail with encode error: {}", res.0);
    assert_eq!(res.1, "Ok(())", "small QoS0 publish after a failed send must succeed");
    assert!(res.2.starts_with("Ok(Ok("), "small QoS1 publish after a failed send must succeed: {}", res.2);
}

#[test]
fn d2_v5_control_plain_qos1() {
    check(block_on("d2_v5_plain", run(Mode::PlainQos1)));
}

#[test]
fn d2_v5_stream_qos1() {
    check(block_on("d2_v5_s1", run(Mode::StreamQos1)));
}

#[test]
fn d2_v5_stream_qos0() {
    check(block_on("d2_v5_s0", run(Mode::StreamQos0)));
}

//! D1 (C06/C16), v5: the peer acknowledges a QoS1 PUBLISH with PUBREC / PUBCOMP
//! (same packet id) instead of PUBACK.
//!
//! Correct behaviour: protocol error, the connection is closed, the
//! `send_at_least_once` future resolves to an `Err`, nothing panics.
//! Suspected: `pkt_ack_inner` does not compare the expected ack type on the
//! PUBREC / PUBCOMP branches, the wrong `Ack` variant is delivered to the sender
//! and `Ack::publish()` hits `panic!()` (src/v5/shared.rs).
use std::future::Future;
use std::panic::{AssertUnwindSafe, catch_unwind};
use std::pin::Pin;
use std::sync::{Arc, Mutex};
use std::task::{Context, Poll};

use ntex::server;
use ntex::time::{Millis, sleep, timeout};
use ntex::util::{ByteString, Bytes, Ready};

use ntex_mqtt::v5::codec::{self, Decoded, Encoded, Packet};
use ntex_mqtt::v5::{Handshake, MqttServer, Publish, PublishAck};

struct St;

#[derive(Debug)]
struct TestError;

impl From<()> for TestError {
    fn from(_: ()) -> Self {
        TestError
    }
}

impl TryFrom<TestError> for PublishAck {
    type Error = TestError;

    fn try_from(err: TestError) -> Result<Self, Self::Error> {
        Err(err)
    }
}

/// Polls the inner future under `catch_unwind`, so a panic raised while the
/// send future is polled is turned into a value we can report.
struct CatchPanic<F>(Pin<Box<F>>);

impl<F: Future> Future for CatchPanic<F> {
    type Output = Result<F::Output, String>;

    fn poll(mut self: Pin<&mut Self>, cx: &mut Context<'_>) -> Poll<Self::Output> {
        let fut = self.0.as_mut();
        match catch_unwind(AssertUnwindSafe(|| fut.poll(cx))) {
            Ok(Poll::Pending) => Poll::Pending,
            Ok(Poll::Ready(v)) => Poll::Ready(Ok(v)),
            Err(e) => {
                let msg = if let Some(s) = e.downcast_ref::<&str>() {
                    (*s).to_string()
                } else if let Some(s) = e.downcast_ref::<String>() {
                    s.clone()
                } else {
                    "<non-string panic payload>".to_string()
                };
                Poll::Ready(Err(msg))
            }
        }
    }
}

#[derive(Clone, Copy, Debug)]
enum Wrong {
    PubRec,
    PubComp,
}

async fn run(wrong: Wrong) -> String {
    run_ex(wrong, true).await
}

async fn run_ex(wrong: Wrong, catch: bool) -> String {
    // outcome of the server-side send future: "ok:..", "err:..", "panic:.."
    let outcome: Arc<Mutex<Option<String>>> = Arc::new(Mutex::new(None));
    let outcome2 = outcome.clone();
    let location: Arc<Mutex<Option<String>>> = Arc::new(Mutex::new(None));
    let location2 = location.clone();

    // record panic location (the hook is process wide, tests in this file run
    // with --test-threads=1 semantics not required: we only append)
    let prev = std::panic::take_hook();
    std::panic::set_hook(Box::new(move |info| {
        if let Some(l) = info.location() {
            *location2.lock().unwrap() = Some(format!("{}:{}", l.file(), l.line()));
        }
        prev(info);
    }));

    let srv = server::test_server(async move || {
        let outcome = outcome2.clone();
        MqttServer::new(move |con: Handshake| {
            let sink = con.sink();
            let outcome = outcome.clone();
            ntex::rt::spawn(async move {
                sleep(Millis(100)).await;
                let fut =
                    sink.publish(ByteString::from_static("t1")).send_at_least_once(Bytes::new());
                let res = if catch {
                    CatchPanic(Box::pin(fut)).await
                } else {
                    // no catch_unwind: the panic unwinds into the runtime of the worker
                    Ok(fut.await)
                };
                let s = match res {
                    Ok(Ok(ack)) => format!("ok:{:?}", ack),
                    Ok(Err(e)) => format!("err:{:?}", e),
                    Err(p) => format!("panic:{:?}", p),
                };
                println!("PROBE server send_at_least_once -> {}", s);
                *outcome.lock().unwrap() = Some(s);
            });
            Ready::Ok::<_, TestError>(con.ack(St))
        })
        .publish(|p: Publish| Ready::Ok::<_, TestError>(p.ack()))
    });

    let io = srv.connect().await.unwrap();
    let codec = codec::Codec::new();
    io.send(Encoded::Packet(codec::Connect::default().client_id("user").into()), &codec)
        .await
        .unwrap();
    let _ = io.recv(&codec).await.unwrap().unwrap();

    // server publishes QoS1
    let id = match timeout(Millis(2000), io.recv(&codec)).await {
        Ok(Ok(Some(Decoded::Publish(p, _, _)))) => {
            println!("PROBE peer got PUBLISH qos={:?} id={:?}", p.qos, p.packet_id);
            p.packet_id.unwrap()
        }
        other => panic!("PROBE no publish from server: {:?}", other),
    };

    // answer with the wrong ack type
    let pkt = match wrong {
        Wrong::PubRec => Packet::PublishReceived(codec::PublishAck {
            packet_id: id,
            reason_code: codec::PublishAckReason::Success,
            properties: Default::default(),
            reason_string: None,
        }),
        Wrong::PubComp => Packet::PublishComplete(codec::PublishAck2 {
            packet_id: id,
            reason_code: codec::PublishAck2Reason::Success,
            properties: Default::default(),
            reason_string: None,
        }),
    };
    println!("PROBE peer answers with {:?}", wrong);
    io.send(Encoded::Packet(pkt), &codec).await.unwrap();

    // what does the server do on the wire?
    match timeout(Millis(1000), io.recv(&codec)).await {
        Ok(Ok(Some(Decoded::Packet(Packet::Disconnect(d), _)))) => {
            println!("PROBE wire: server sent DISCONNECT {:?}", d.reason_code)
        }
        Ok(Ok(Some(other))) => println!("PROBE wire: server sent {:?}", other),
        Ok(Ok(None)) => println!("PROBE wire: connection closed by server"),
        Ok(Err(e)) => println!("PROBE wire: recv error {:?}", e),
        Err(_) => println!("PROBE wire: nothing within 1s, connection still open"),
    }

    // wait for send future outcome
    for _ in 0..20 {
        if outcome.lock().unwrap().is_some() {
            break;
        }
        sleep(Millis(100)).await;
    }
    let _ = std::panic::take_hook();
    if !catch {
        // is the (single) worker still able to serve a new connection?
        let served = match timeout(Millis(2000), async {
            let io2 = srv.connect().await.ok()?;
            io2.send(Encoded::Packet(codec::Connect::default().client_id("u2").into()), &codec)
                .await
                .ok()?;
            io2.recv(&codec).await.ok()?
        })
        .await
        {
            Ok(Some(Decoded::Packet(Packet::ConnectAck(_), _))) => true,
            _ => false,
        };
        println!("PROBE-RESULT uncaught panic: worker serves a new connection afterwards = {served}");
        if !served {
            return "worker-dead".to_string();
        }
    }
    drop(io);
    drop(srv);
    sleep(Millis(50)).await;
    let res = outcome.lock().unwrap().clone().unwrap_or_else(|| "unresolved".to_string());
    println!(
        "PROBE-RESULT {:?} for QoS1 send -> {} (panic location: {:?})",
        wrong,
        res,
        location.lock().unwrap()
    );
    res
}

/// Run the scenario on an ntex runtime, return the result to the plain test
/// thread so that the assertion does not unwind through the runtime.
fn block_on<F: Future + 'static>(name: &str, f: F) -> F::Output
where
    F::Output: 'static,
{
    ntex::rt::System::build().name(name).testing().build(ntex::rt::DefaultRuntime).block_on(f)
}

#[test]
fn d1_v5_pubrec_for_qos1() {
    let res = block_on("d1_v5_pubrec", run(Wrong::PubRec));
    assert!(res.starts_with("err:"), "expected send future to fail cleanly, got {res}");
}

#[test]
fn d1_v5_pubcomp_for_qos1() {
    let res = block_on("d1_v5_pubcomp", run(Wrong::PubComp));
    assert!(res.starts_with("err:"), "expected send future to fail cleanly, got {res}");
}

#[test]
fn d1_v5_pubrec_for_qos1_uncaught() {
    let res = block_on("d1_v5_pubrec_uncaught", run_ex(Wrong::PubRec, false));
    assert!(res.starts_with("err:"), "expected send future to fail cleanly, got {res}");
}

//! D14 (C05), MQTT 3.1.1 port of `/verif/probes/dyn/c05_window.rs`: the send
//! window is not enforced for send futures that are created before either of
//! them is polled.
//!
//! The server limits the number of outgoing in-flight messages to 1
//! (`HandshakeAck::max_send(Some(1))`, applied with `MqttShared::set_cap`).
//! Two `send_at_least_once` futures are created back to back and then joined;
//! `wait_readiness()` is evaluated eagerly when the future is *created*, the
//! in-flight slot is only taken when it is first *polled*, so both see a free
//! window.
//!
//! Correct behaviour: the peer, which does not acknowledge anything for 500 ms,
//! sees at most 1 unacknowledged PUBLISH.
//! Suspected: it sees 2.
//!
//! MQTT 3.1.1 differs from v5 in one detail: `send_at_least_once_inner` is a plain
//! fn (not `async fn`), so the PUBLISH is encoded and the in-flight slot taken
//! already when the future is *created* and the literal port
//! (`d14_v3_window_two_futures_created_before_polled`) is not affected. The same
//! check-then-act gap is reachable in two other ways, replayed below:
//!
//! * `stream_pair`: `stream_at_least_once_inner` *is* an `async fn`; two
//!   `stream_at_least_once(0)` futures created back to back both pass
//!   `wait_readiness()`.
//! * `woken_waiter`: A in flight, B parked on the window. The PUBACK for A
//!   completes A and wakes B (`tx.send(())`), but B only takes its slot when its
//!   task is polled. The task that awaited A runs first and immediately creates
//!   sender C ("publish the next message when the previous one is acked"):
//!   `wait_readiness()` sees an empty in-flight queue and C is sent; then B runs
//!   and is sent too, without re-checking the window.
use std::future::Future;
use std::sync::{Arc, Mutex};

use ntex::server;
use ntex::time::{Millis, sleep, timeout};
use ntex::util::{ByteString, Bytes, Ready};

use ntex_mqtt::v3::codec::{self, Decoded, Encoded, Packet};
use ntex_mqtt::v3::{Handshake, MqttServer};

struct St;

fn block_on<F: Future + 'static>(name: &str, f: F) -> F::Output
where
    F::Output: 'static,
{
    ntex::rt::System::build().name(name).testing().build(ntex::rt::DefaultRuntime).block_on(f)
}

#[derive(Debug, Default, Clone)]
struct Out {
    credit_before: Option<usize>,
    credit_after_create: Option<usize>,
    sends: Option<String>,
    unacked: usize,
}

#[derive(Clone, Copy, Debug, PartialEq)]
enum Mode {
    /// control: the second future is created after the first one was polled
    Control,
    /// literal port of the v5 probe: two `send_at_least_once` futures created, then joined
    EagerPair,
    /// two `stream_at_least_once(0)` futures created, then joined
    StreamPair,
    /// A in flight, B parked; A's task creates C as soon as A is acked
    WokenWaiter,
}

async fn run(mode: Mode) -> Out {
    let out: Arc<Mutex<Out>> = Arc::new(Mutex::new(Out::default()));
    let out2 = out.clone();

    let srv = server::test_server(async move || {
        let out = out2.clone();
        MqttServer::new(move |con: Handshake| {
            let sink = con.sink();
            let out = out.clone();
            ntex::rt::spawn(async move {
                sleep(Millis(100)).await;
                println!("PROBE credit before sends = {}", sink.credit());
                out.lock().unwrap().credit_before = Some(sink.credit());
                let (r1, r2) = match mode {
                    Mode::EagerPair => {
                        let f1 = sink
                            .publish(ByteString::from_static("t1"))
                            .send_at_least_once(Bytes::new());
                        let f2 = sink
                            .publish(ByteString::from_static("t2"))
                            .send_at_least_once(Bytes::new());
                        out.lock().unwrap().credit_after_create = Some(sink.credit());
                        let (a, b) =
                            ntex::util::join(timeout(Millis(2500), f1), timeout(Millis(2500), f2))
                                .await;
                        (format!("{:?}", a), format!("{:?}", b))
                    }
                    Mode::StreamPair => {
                        let (f1, _pl1) =
                            sink.publish(ByteString::from_static("t1")).stream_at_least_once(0);
                        let (f2, _pl2) =
                            sink.publish(ByteString::from_static("t2")).stream_at_least_once(0);
                        out.lock().unwrap().credit_after_create = Some(sink.credit());
                        let (a, b) =
                            ntex::util::join(timeout(Millis(2500), f1), timeout(Millis(2500), f2))
                                .await;
                        (format!("{:?}", a), format!("{:?}", b))
                    }
                    Mode::Control => {
                        let s = sink.clone();
                        let h = ntex::rt::spawn(async move {
                            timeout(
                                Millis(2500),
                                s.publish(ByteString::from_static("t1"))
                                    .send_at_least_once(Bytes::new()),
                            )
                            .await
                        });
                        sleep(Millis(50)).await;
                        let f2 = sink
                            .publish(ByteString::from_static("t2"))
                            .send_at_least_once(Bytes::new());
                        out.lock().unwrap().credit_after_create = Some(sink.credit());
                        let r2 = timeout(Millis(2500), f2).await;
                        (format!("{:?}", h.await.unwrap()), format!("{:?}", r2))
                    }
                    Mode::WokenWaiter => {
                        // A: sent at once, takes the only slot
                        let fa = sink
                            .publish(ByteString::from_static("a"))
                            .send_at_least_once(Bytes::new());
                        // B: parks on the window
                        let fb = sink
                            .publish(ByteString::from_static("b"))
                            .send_at_least_once(Bytes::new());
                        out.lock().unwrap().credit_after_create = Some(sink.credit());
                        let s = sink.clone();
                        let ta = ntex::rt::spawn(async move {
                            let ra = timeout(Millis(2500), fa).await;
                            // A is acked: publish the next message right away
                            let credit = s.credit();
                            let fc = s
                                .publish(ByteString::from_static("c"))
                                .send_at_least_once(Bytes::new());
                            println!(
                                "PROBE A completed {:?}; credit seen by A's task = {}, after creating C = {}",
                                ra,
                                credit,
                                s.credit()
                            );
                            let rc = timeout(Millis(2500), fc).await;
                            format!("A={:?} C={:?}", ra, rc)
                        });
                        let tb = ntex::rt::spawn(async move {
                            format!("B={:?}", timeout(Millis(2500), fb).await)
                        });
                        (ta.await.unwrap(), tb.await.unwrap())
                    }
                };
                println!("PROBE sends returned {} {}", r1, r2);
                out.lock().unwrap().sends = Some(format!("{} {}", r1, r2));
            });
            Ready::Ok::<_, ()>(con.ack(St, false).max_send(Some(1)))
        })
        .publish(|_| Ready::Ok::<_, ()>(()))
    });

    let io = srv.connect().await.unwrap();
    let codec = codec::Codec::new();
    io.send(Encoded::Packet(codec::Connect::default().client_id("user").into()), &codec)
        .await
        .unwrap();
    let _ = io.recv(&codec).await.unwrap().unwrap();

    // phase 0 (woken_waiter only): receive A, make sure nothing else comes, ack A
    if mode == Mode::WokenWaiter {
        match timeout(Millis(1000), io.recv(&codec)).await {
            Ok(Ok(Some(Decoded::Publish(p, _, _)))) => {
                println!("PROBE peer got PUBLISH id={:?} topic={:?}", p.packet_id, p.topic);
                let more = timeout(Millis(300), io.recv(&codec)).await;
                println!("PROBE peer: anything else within 300ms? {:?}", more.is_ok());
                println!("PROBE peer sends PUBACK id={:?}", p.packet_id);
                io.send(
                    Encoded::Packet(Packet::PublishAck { packet_id: p.packet_id.unwrap() }),
                    &codec,
                )
                .await
                .unwrap();
            }
            other => panic!("expected PUBLISH a, got {:?}", other),
        }
    }

    // phase 1: do not acknowledge anything, count PUBLISH packets
    let mut ids = Vec::new();
    loop {
        match timeout(Millis(500), io.recv(&codec)).await {
            Ok(Ok(Some(Decoded::Publish(p, _, _)))) => {
                ids.push(p.packet_id.unwrap());
                println!("PROBE unacked publish #{} id={:?} topic={:?}", ids.len(), p.packet_id, p.topic);
            }
            Ok(other) => {
                println!("PROBE peer: {:?}", other);
                break;
            }
            Err(_) => break,
        }
    }
    let unacked = ids.len();
    out.lock().unwrap().unacked = unacked;
    println!("PROBE-RESULT {:?}: unacknowledged PUBLISH packets received with send limit 1: {}", mode, unacked);

    // phase 2: acknowledge in order so the senders can finish
    let mut pending: std::collections::VecDeque<_> = ids.into();
    for _ in 0..4 {
        while let Some(id) = pending.pop_front() {
            io.send(Encoded::Packet(Packet::PublishAck { packet_id: id }), &codec).await.unwrap();
        }
        match timeout(Millis(500), io.recv(&codec)).await {
            Ok(Ok(Some(Decoded::Publish(p, _, _)))) => {
                println!("PROBE publish after ack id={:?} topic={:?}", p.packet_id, p.topic);
                pending.push_back(p.packet_id.unwrap());
            }
            _ => break,
        }
    }
    for _ in 0..30 {
        if out.lock().unwrap().sends.is_some() {
            break;
        }
        sleep(Millis(100)).await;
    }
    drop(io);
    drop(srv);
    sleep(Millis(50)).await;
    let res = out.lock().unwrap().clone();
    println!("PROBE-RESULT {:?} -> {:?}", mode, res);
    res
}

fn check(res: &Out) {
    assert_eq!(res.credit_before, Some(1));
    assert!(
        res.unacked <= 1,
        "send limit is 1 but the peer received {} unacknowledged PUBLISH packets",
        res.unacked
    );
}

#[test]
fn d14_v3_window_control_second_created_after_first_polled() {
    let res = block_on("d14_v3_w_c", run(Mode::Control));
    check(&res);
    assert_eq!(res.sends.as_deref(), Some("Ok(Ok(())) Ok(Ok(()))"));
}

#[test]
fn d14_v3_window_two_futures_created_before_polled() {
    check(&block_on("d14_v3_w", run(Mode::EagerPair)));
}

#[test]
fn d14_v3_window_stream_pair() {
    check(&block_on("d14_v3_w_s", run(Mode::StreamPair)));
}

#[test]
fn d14_v3_window_woken_waiter() {
    check(&block_on("d14_v3_w_w", run(Mode::WokenWaiter)));
}

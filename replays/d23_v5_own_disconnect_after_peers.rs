//! D23 (C15), MQTT 5 server: the library's own DISCONNECT (Implementation specific error) is written after the peer's
//! DISCONNECT has been received.
//!
//! `ControlService::call` (src/v5/default.rs) guards the packet *returned by the application's control service* with
//! `(proto_error || !is_disconnect_recv()) && !is_disconnect_sent()`, but the DISCONNECT it builds itself when the
//! application returns nothing is guarded by `!is_disconnect_sent()` only.
//!
//! Scenario (adapted from the demonstration of the seeded change C15-f, where the application supplied the packet):
//! a publish handler is still running when the client says DISCONNECT with a non-zero Session Expiry Interval although
//! CONNECT had zero; the dispatcher records DISCONNECT_RECV and leaves the report to the control service.  The handler
//! notices that the peer has disconnected, abandons its work and fails: the dispatcher is stopped with the handler's
//! error, Control::Stop(Reason::Error).  The application's control service returns nothing (like the default one).
//! Correct behaviour (C15: "writes none after it has received the peer's DISCONNECT, except to report a protocol
//! error in that very packet"): nothing but a ProtocolError report may follow.
//! Observed: DISCONNECT { reason_code: ImplementationSpecificError } is written after the peer's DISCONNECT.
use std::future::poll_fn;
use std::num::NonZeroU16;
use std::sync::atomic::{AtomicBool, Ordering::Relaxed};
use std::sync::Arc;
use std::task::Poll;

use ntex::server;
use ntex::service::{fn_factory_with_config, fn_service};
use ntex::time::{Millis, sleep};
use ntex::util::ByteString;

use ntex_mqtt::v5::codec::{self, Decoded, Encoded, Packet};
use ntex_mqtt::v5::{Handshake, HandshakeAck, MqttServer, Publish, PublishAck, Session};
use ntex_mqtt::{Control, Reason};

struct St;

#[derive(Debug)]
struct TestError;

impl From<()> for TestError {
    fn from(_: ()) -> Self {
        TestError
    }
}

impl TryFrom<TestError> for PublishAck {
    type Error = TestError;

    fn try_from(err: TestError) -> Result<Self, Self::Error> {
        Err(err)
    }
}

async fn handshake(packet: Handshake) -> Result<HandshakeAck<St>, TestError> {
    Ok(packet.ack(St))
}

async fn run() -> (bool, Vec<String>) {
    let handler_error = Arc::new(AtomicBool::new(false));
    let handler_error2 = handler_error.clone();

    let srv = server::test_server(async move || {
        let handler_error = handler_error2.clone();

        MqttServer::new(handshake)
            .control(fn_service(move |msg: Control<TestError>| {
                let handler_error = handler_error.clone();
                async move {
                    match msg {
                        // the application names its own cause for failed handlers
                        Control::Stop(Reason::Error(_)) => {
                            handler_error.store(true, Relaxed);
                            Ok::<_, TestError>(None)
                        }
                        // everything else is left to the framework
                        _ => Ok(None),
                    }
                }
            }))
            .publish(fn_factory_with_config(async move |session: Session<St>| {
                let sink = session.sink().clone();

                Ok::<_, ()>(fn_service(move |_: Publish| {
                    let sink = sink.clone();
                    async move {
                        // long running work, abandoned as soon as the peer disconnects
                        poll_fn(|_| {
                            if sink.is_disconnect_recv() {
                                Poll::Ready(())
                            } else {
                                Poll::Pending
                            }
                        })
                        .await;
                        Err::<PublishAck, _>(TestError)
                    }
                }))
            }))
    });

    // connect to server, session expiry is 0
    let io = srv.connect().await.unwrap();
    let codec = codec::Codec::default();
    io.send(
        Encoded::Packet(
            codec::Connect { session_expiry_interval_secs: 0, ..Default::default() }
                .client_id("user")
                .into(),
        ),
        &codec,
    )
    .await
    .unwrap();
    let ack = io.recv(&codec).await.unwrap().unwrap();
    assert!(matches!(ack, Decoded::Packet(Packet::ConnectAck(_), _)));

    // publish, handler does not complete
    io.send(
        Encoded::Publish(
            codec::Publish {
                dup: false,
                retain: false,
                qos: codec::QoS::AtLeastOnce,
                topic: ByteString::from("test"),
                packet_id: Some(NonZeroU16::new(1).unwrap()),
                payload_size: 0,
                properties: Default::default(),
            },
            None,
        ),
        &codec,
    )
    .await
    .unwrap();
    sleep(Millis(100)).await;

    // disconnect, session expiry is not zero
    io.send(
        Encoded::Packet(
            codec::Disconnect { session_expiry_interval_secs: Some(10), ..Default::default() }
                .into(),
        ),
        &codec,
    )
    .await
    .unwrap();

    // read everything server writes after our DISCONNECT
    let mut received = Vec::new();
    while let Ok(Some(item)) = io.recv(&codec).await {
        received.push(item);
    }

    let mut discs = Vec::new();
    for item in received {
        if let Decoded::Packet(Packet::Disconnect(pkt), _) = item {
            println!("PROBE-RESULT after the peer's DISCONNECT the server wrote {:?}", pkt);
            discs.push(format!("{:?}", pkt.reason_code));
        }
    }
    (handler_error.load(Relaxed), discs)
}

#[test]
fn no_disconnect_of_the_librarys_own_after_the_peers_disconnect() {
    let (stopped, discs) = ntex::rt::System::build()
        .name("d23")
        .testing()
        .build(ntex::rt::DefaultRuntime)
        .block_on(run());
    assert!(stopped, "control service did not get the handler's error");
    assert!(
        discs.iter().all(|d| d == "ProtocolError"),
        "server wrote its own DISCONNECT after it had received the peer's: {:?}",
        discs
    );
}

//! D16 (C03): MQTT 3.1.1 *client* dispatcher and inbound QoS2 PUBLISH.
//!
//! A raw "server" (plain Io + v3 codec) accepts the CONNECT, answers CONNACK and sends
//!   1. PUBLISH QoS2 id=1   expected answer: PUBREC id=1   (MQTT 3.1.1 4.3.3)
//!   2. PUBREL id=1         expected answer: PUBCOMP id=1
//!
//! Suspected (src/v3/client/dispatcher.rs): `publish_fn` builds
//! `Packet::PublishAck { packet_id }` whenever a packet id is present, whatever the QoS
//! (router path); the control path (`ProtocolMessage::Publish(..).ack()` ->
//! `ProtocolMessageKind::PublishAck(id)`) does the same.
//!
//! Variants of scenario A:
//!   * `control`: `client.start(fn_service(|msg| Ok(msg.ack())))`, the publish is not
//!     routed and reaches the control service as `ProtocolMessage::Publish`.
//!   * `router`: `client.resource("test", handler).start(fn_service(|msg| Ok(msg.ack())))`.
//!
//! Scenario B: a real v3 `MqttServer` whose sink does `send_exactly_once()` to the real
//! v3 client: expected `Ok(PublishReceived)` and a successful `release()`.
//!
//! Control: the same raw server sends PUBLISH QoS1 id=1 -> PUBACK id=1 (passes).
use std::future::Future;
use std::num::NonZeroU16;
use std::sync::{Arc, Mutex};

use ntex::io::Io;
use ntex::server;
use ntex::service::{ServiceFactory, cfg::SharedCfg, fn_service};
use ntex::time::{Millis, sleep, timeout};
use ntex::util::{ByteString, Bytes, Ready};

use ntex_mqtt::MqttServiceConfig;
use ntex_mqtt::v3::codec::{self, Decoded, Encoded, Packet};
use ntex_mqtt::v3::{self, Handshake, MqttServer, QoS, client};

struct St;

fn block_on<F: Future + 'static>(name: &str, f: F) -> F::Output
where
    F::Output: 'static,
{
    ntex::rt::System::build().name(name).testing().build(ntex::rt::DefaultRuntime).block_on(f)
}

fn publish(qos: QoS, id: u16) -> codec::Publish {
    codec::Publish {
        dup: false,
        retain: false,
        qos,
        topic: ByteString::from("test"),
        packet_id: NonZeroU16::new(id),
        payload_size: 0,
    }
}

fn short(d: &Result<Option<Decoded>, String>) -> String {
    match d {
        Ok(Some(Decoded::Packet(Packet::PublishAck { packet_id }, _))) => {
            format!("PUBACK id={}", packet_id)
        }
        Ok(Some(Decoded::Packet(Packet::PublishReceived { packet_id }, _))) => {
            format!("PUBREC id={}", packet_id)
        }
        Ok(Some(Decoded::Packet(Packet::PublishComplete { packet_id }, _))) => {
            format!("PUBCOMP id={}", packet_id)
        }
        Ok(Some(other)) => format!("{:?}", other),
        Ok(None) => "connection closed".to_string(),
        Err(e) => format!("error/timeout: {e}"),
    }
}

async fn recv(io: &Io, codec: &codec::Codec) -> Result<Option<Decoded>, String> {
    match timeout(Millis(1500), io.recv(codec)).await {
        Ok(Ok(v)) => Ok(v),
        Ok(Err(e)) => Err(format!("{:?}", e)),
        Err(_) => Err("timeout".to_string()),
    }
}

#[derive(Clone, Copy, PartialEq)]
enum Mode {
    Control,
    Router,
}

async fn raw_server_vs_client(name: &'static str, mode: Mode, qos: QoS) -> Vec<String> {
    let steps: Arc<Mutex<Vec<String>>> = Arc::new(Mutex::new(Vec::new()));
    let done: Arc<Mutex<bool>> = Arc::new(Mutex::new(false));
    let (steps2, done2) = (steps.clone(), done.clone());

    let srv = server::test_server(async move || {
        let (steps, done) = (steps2.clone(), done2.clone());
        fn_service(move |io: Io| {
            let (steps, done) = (steps.clone(), done.clone());
            async move {
                let codec = codec::Codec::new();
                // handshake
                let c = recv(&io, &codec).await;
                assert!(matches!(c, Ok(Some(Decoded::Packet(Packet::Connect(_), _)))), "{:?}", c);
                io.send(
                    Encoded::Packet(Packet::ConnectAck(codec::ConnectAck {
                        return_code: codec::ConnectAckReason::ConnectionAccepted,
                        session_present: false,
                    })),
                    &codec,
                )
                .await
                .unwrap();

                // 1. PUBLISH id=1
                io.send(Encoded::Publish(publish(qos, 1), Some(Bytes::new())), &codec)
                    .await
                    .unwrap();
                let r = short(&recv(&io, &codec).await);
                println!("PROBE {} step1 PUBLISH {:?} id=1 -> client answered: {}", name, qos, r);
                steps.lock().unwrap().push(r);

                if qos == QoS::ExactlyOnce {
                    // 2. PUBREL id=1
                    io.send(
                        Encoded::Packet(Packet::PublishRelease {
                            packet_id: NonZeroU16::new(1).unwrap(),
                        }),
                        &codec,
                    )
                    .await
                    .unwrap();
                    let r = short(&recv(&io, &codec).await);
                    println!("PROBE {} step2 PUBREL id=1 -> client answered: {}", name, r);
                    steps.lock().unwrap().push(r);
                }

                *done.lock().unwrap() = true;
                Ok::<_, ()>(())
            }
        })
    });

    let client = client::MqttConnector::new()
        .pipeline(SharedCfg::default())
        .await
        .unwrap()
        .call(client::Connect::new(srv.addr()).client_id("user"))
        .await
        .unwrap();

    let control = move |msg: client::ProtocolMessage| async move {
        println!("PROBE {} client control service: {:?}", name, msg);
        Ok::<_, ()>(msg.ack())
    };

    match mode {
        Mode::Control => {
            ntex::rt::spawn(async move {
                let r = client.start(fn_service(control)).await;
                println!("PROBE {} client dispatcher finished: {:?}", name, r);
            });
        }
        Mode::Router => {
            let router = client.resource("test", move |pkt: v3::Publish| async move {
                println!(
                    "PROBE {} client publish handler: qos={:?} id={:?}",
                    name,
                    pkt.packet().qos,
                    pkt.id()
                );
                Ok::<_, ()>(())
            });
            ntex::rt::spawn(async move {
                let r = router.start(fn_service(control)).await;
                println!("PROBE {} client dispatcher finished: {:?}", name, r);
            });
        }
    }

    for _ in 0..60 {
        if *done.lock().unwrap() {
            break;
        }
        sleep(Millis(100)).await;
    }
    drop(srv);
    sleep(Millis(50)).await;
    let res = steps.lock().unwrap().clone();
    res
}

#[test]
fn d16_control_qos1_raw_server_control_path() {
    let res = block_on("d16_q1", raw_server_vs_client("qos1/control", Mode::Control, QoS::AtLeastOnce));
    println!("PROBE-RESULT raw server vs v3 client (control path), QoS1: {:?}", res);
    assert_eq!(res, vec!["PUBACK id=1"]);
}

#[test]
fn d16_control_qos1_raw_server_router_path() {
    let res = block_on("d16_q1r", raw_server_vs_client("qos1/router", Mode::Router, QoS::AtLeastOnce));
    println!("PROBE-RESULT raw server vs v3 client (router path), QoS1: {:?}", res);
    assert_eq!(res, vec!["PUBACK id=1"]);
}

#[test]
fn d16_v3_client_qos2_raw_server_control_path() {
    let res = block_on("d16_a1", raw_server_vs_client("qos2/control", Mode::Control, QoS::ExactlyOnce));
    println!("PROBE-RESULT raw server vs v3 client (control path), QoS2: {:?}", res);
    assert_eq!(res.len(), 2, "{:?}", res);
    assert_eq!(res[0], "PUBREC id=1", "QoS2 PUBLISH must be answered with PUBREC");
    assert_eq!(res[1], "PUBCOMP id=1", "PUBREL must be answered with PUBCOMP");
}

#[test]
fn d16_v3_client_qos2_raw_server_router_path() {
    let res = block_on("d16_a2", raw_server_vs_client("qos2/router", Mode::Router, QoS::ExactlyOnce));
    println!("PROBE-RESULT raw server vs v3 client (router path), QoS2: {:?}", res);
    assert_eq!(res.len(), 2, "{:?}", res);
    assert_eq!(res[0], "PUBREC id=1", "QoS2 PUBLISH must be answered with PUBREC");
    assert_eq!(res[1], "PUBCOMP id=1", "PUBREL must be answered with PUBCOMP");
}

async fn real_server_vs_client(name: &'static str, mode: Mode) -> (String, String) {
    let out: Arc<Mutex<Option<(String, String)>>> = Arc::new(Mutex::new(None));
    let out2 = out.clone();

    let srv = server::TestServerBuilder::new(async move || {
        let out = out2.clone();
        MqttServer::new(move |con: Handshake| {
            let sink = con.sink();
            let out = out.clone();
            ntex::rt::spawn(async move {
                sleep(Millis(100)).await;
                let r = timeout(
                    Millis(1500),
                    sink.publish(ByteString::from_static("test")).send_exactly_once(Bytes::new()),
                )
                .await;
                let first = format!("{:?}", r);
                println!("PROBE {} server send_exactly_once -> {}", name, first);
                let second = match r {
                    Ok(Ok(received)) => {
                        format!("{:?}", timeout(Millis(1500), received.release()).await)
                    }
                    _ => "not attempted".to_string(),
                };
                println!("PROBE {} server release() -> {}", name, second);
                println!("PROBE {} server sink.is_open() = {}", name, sink.is_open());
                *out.lock().unwrap() = Some((first, second));
            });
            Ready::Ok::<_, ()>(con.ack(St, false))
        })
        .publish(|_p: v3::Publish| Ready::Ok::<_, ()>(()))
    })
    .config(SharedCfg::new("MQTT").add(MqttServiceConfig::new().set_max_qos(QoS::ExactlyOnce)))
    .start();

    let client = client::MqttConnector::new()
        .pipeline(SharedCfg::default())
        .await
        .unwrap()
        .call(client::Connect::new(srv.addr()).client_id("user"))
        .await
        .unwrap();

    let control = move |msg: client::ProtocolMessage| async move {
        println!("PROBE {} client control service: {:?}", name, msg);
        Ok::<_, ()>(msg.ack())
    };
    match mode {
        Mode::Control => {
            ntex::rt::spawn(async move {
                let r = client.start(fn_service(control)).await;
                println!("PROBE {} client dispatcher finished: {:?}", name, r);
            });
        }
        Mode::Router => {
            let router = client.resource("test", move |pkt: v3::Publish| async move {
                println!(
                    "PROBE {} client publish handler: qos={:?} id={:?}",
                    name,
                    pkt.packet().qos,
                    pkt.id()
                );
                Ok::<_, ()>(())
            });
            ntex::rt::spawn(async move {
                let r = router.start(fn_service(control)).await;
                println!("PROBE {} client dispatcher finished: {:?}", name, r);
            });
        }
    }

    for _ in 0..60 {
        if out.lock().unwrap().is_some() {
            break;
        }
        sleep(Millis(100)).await;
    }
    drop(srv);
    sleep(Millis(50)).await;
    let res = out.lock().unwrap().clone().unwrap_or(("unresolved".into(), "unresolved".into()));
    res
}

#[test]
fn d16_v3_client_qos2_real_server_control_path() {
    let res = block_on("d16_b1", real_server_vs_client("real/control", Mode::Control));
    println!(
        "PROBE-RESULT real v3 server -> v3 client (control path) QoS2: send={} release={}",
        res.0, res.1
    );
    assert!(res.0.starts_with("Ok(Ok("), "send_exactly_once to a v3 client failed: {}", res.0);
    assert_eq!(res.1, "Ok(Ok(()))", "release() failed");
}

#[test]
fn d16_v3_client_qos2_real_server_router_path() {
    let res = block_on("d16_b2", real_server_vs_client("real/router", Mode::Router));
    println!(
        "PROBE-RESULT real v3 server -> v3 client (router path) QoS2: send={} release={}",
        res.0, res.1
    );
    assert!(res.0.starts_with("Ok(Ok("), "send_exactly_once to a v3 client failed: {}", res.0);
    assert_eq!(res.1, "Ok(Ok(()))", "release() failed");
}

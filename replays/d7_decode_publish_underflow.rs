//! D7 (C02): PUBLISH frames whose Remaining Length is smaller than their own
//! variable header (topic length prefix + topic + packet id [+ v5 properties]).
//!
//! Correct behaviour: `decode` returns `Err(DecodeError::..)`, never panics and
//! never yields a PUBLISH with a bogus payload length.
//! Suspected: `payload_len = fixed.remaining_length - hdr_len` (v3 codec.rs
//! PublishHeader arm) / `- props_len` (v5 codec.rs PublishProperties arm)
//! underflows: panic "attempt to subtract with overflow" with overflow checks,
//! payload length ~4 GiB (swallowing the following packets) without.
//!
//! The decoders read the topic length (and v5 property length) from the stream
//! *before* comparing with Remaining Length, so the bytes following the short
//! frame matter; they are peer controlled as well. Every vector is the complete
//! byte string the peer sends (short PUBLISH frame plus the first bytes of
//! whatever follows), and is then followed by two PINGREQ packets (`c0 00 c0 00`).
use std::panic::{AssertUnwindSafe, catch_unwind};

use ntex::codec::Decoder;
use ntex::util::BytesMut;

const TRAILER: &[u8] = &[0xc0, 0x00, 0xc0, 0x00];

fn run<C, I, E>(name: &str, mk: impl Fn() -> C, vectors: &[(&str, &[u8], bool)]) -> Vec<(String, String)>
where
    C: Decoder<Item = I, Error = E>,
    I: std::fmt::Debug,
    E: std::fmt::Debug,
{
    let mut bad = Vec::new();
    for (what, bytes, expect_ok) in vectors {
        let codec = mk();
        let mut buf = BytesMut::new();
        buf.extend_from_slice(bytes);
        buf.extend_from_slice(TRAILER);
        let hex: Vec<String> = bytes.iter().map(|b| format!("{:02x}", b)).collect();

        let res = catch_unwind(AssertUnwindSafe(|| {
            // decode until the input is exhausted or an error shows up
            let mut items = Vec::new();
            for _ in 0..4 {
                match codec.decode(&mut buf) {
                    Ok(Some(item)) => items.push(format!("{:?}", item)),
                    Ok(None) => {
                        items.push(format!("Ok(None) [{} bytes left]", buf.len()));
                        break;
                    }
                    Err(e) => {
                        items.push(format!("Err({:?})", e));
                        break;
                    }
                }
            }
            items
        }));
        let (ok, shown) = match res {
            Ok(items) => {
                let first = items.first().cloned().unwrap_or_default();
                let ok = if *expect_ok {
                    first.starts_with("Decoded::Publish(")
                } else if first.starts_with("Ok(None)") {
                    // no panic, but the decoder waits for bytes that are not part of
                    // this frame (header length > Remaining Length goes unnoticed).
                    // Reported, not counted as a failure of this replay.
                    println!("PROBE-NOTE {} stalls on the next vector (Ok(None) with the whole frame buffered)", name);
                    true
                } else {
                    first.starts_with("Err(")
                };
                (ok, items.join(" ; "))
            }
            Err(p) => {
                let msg = p
                    .downcast_ref::<&str>()
                    .map(|s| s.to_string())
                    .or_else(|| p.downcast_ref::<String>().cloned())
                    .unwrap_or_else(|| "<panic>".into());
                (false, format!("PANIC: {}", msg))
            }
        };
        println!(
            "PROBE{} {} [{}] ({}) -> {}",
            if ok { "" } else { "-RESULT" },
            name,
            hex.join(" "),
            what,
            shown
        );
        if !ok {
            bad.push((hex.join(" "), shown));
        }
    }
    bad
}

#[test]
fn d7_v3_publish_remaining_length_underflow() {
    let vectors: &[(&str, &[u8], bool)] = &[
        ("control: valid qos0 topic 'a' no payload", &[0x30, 0x03, 0x00, 0x01, 0x61], true),
        ("qos0 rl=1, topic-len prefix needs 2", &[0x30, 0x01, 0x00], false),
        ("qos0 rl=1, next stream byte 00", &[0x30, 0x01, 0x00, 0x00], false),
        ("qos0 rl=0", &[0x30, 0x00], false),
        ("qos0 rl=0, next stream bytes 00 00", &[0x30, 0x00, 0x00, 0x00], false),
        ("qos0 rl=2, topic len 3 -> hdr 5", &[0x30, 0x02, 0x00, 0x03], false),
        ("qos1 rl=3, topic 'a', no room for packet id", &[0x32, 0x03, 0x00, 0x01, 0x61], false),
        ("qos2 rl=4, topic 'ab', no room for packet id", &[0x34, 0x04, 0x00, 0x02, 0x61, 0x62], false),
    ];
    let bad = run("v3", ntex_mqtt::v3::codec::Codec::new, vectors);
    assert!(bad.is_empty(), "v3 decoder mishandled {} vector(s): {:#?}", bad.len(), bad);
}

#[test]
fn d7_v5_publish_remaining_length_underflow() {
    let vectors: &[(&str, &[u8], bool)] = &[
        ("control: valid qos0 topic 'a' no props no payload", &[0x30, 0x04, 0x00, 0x01, 0x61, 0x00], true),
        ("qos0 rl=1", &[0x30, 0x01, 0x00], false),
        ("qos0 rl=1, next stream bytes 00 00", &[0x30, 0x01, 0x00, 0x00, 0x00], false),
        ("qos0 rl=2, topic len 0, no room for property length", &[0x30, 0x02, 0x00, 0x00], false),
        ("qos0 rl=2, topic len 0, next stream byte 00", &[0x30, 0x02, 0x00, 0x00, 0x00], false),
        ("qos0 rl=0", &[0x30, 0x00], false),
        ("qos0 rl=0, next stream bytes 00 00 00", &[0x30, 0x00, 0x00, 0x00, 0x00], false),
        ("qos1 rl=4, topic 'a', id, no room for property length", &[0x32, 0x04, 0x00, 0x01, 0x61, 0x00], false),
        ("qos0 rl=3, topic len 0, property length 2 -> hdr 5", &[0x30, 0x03, 0x00, 0x00, 0x02], false),
        ("qos0 rl=3, topic 'abc' -> hdr 6", &[0x30, 0x03, 0x00, 0x03, 0x61], false),
    ];
    let bad = run("v5", ntex_mqtt::v5::codec::Codec::new, vectors);
    assert!(bad.is_empty(), "v5 decoder mishandled {} vector(s): {:#?}", bad.len(), bad);
}

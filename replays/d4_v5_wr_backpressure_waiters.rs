//! D4 (C13), v5: `MqttShared::disable_wr_backpressure()` returns right after it
//! has woken the *streaming* waiter; `ready()` / `send_at_least_once` callers that
//! parked while write back-pressure was on are not woken, although the sink is
//! ready again (credit > 0, back-pressure off).
//!
//! Driven through the public API over real TCP: the server sink queues 32 MiB of
//! QoS0 publishes while the peer does not read -> the dispatcher reports
//! `Control::WrBackpressure(true)`. While it is on, three tasks park:
//!   S: `StreamingPayload::send(chunk)` of a streamed QoS0 publish,
//!   R: `sink.ready()`,
//!   Q: `send_at_least_once(small)`.
//! Then the peer drains the connection (acking every QoS1 publish), the dispatcher
//! reports `WrBackpressure(false)`.
//!
//! Correct behaviour: S, R and Q all complete.
//! Suspected: only S completes; R and Q stay parked forever.
//! Control run: same without S -> R and Q complete.
//!
//! NOTE: run with the polling driver:
//!   cargo test --offline --features ntex/neon-polling --test d4_v5_wr_backpressure_waiters
//! With the io-uring driver that ntex-net picks by default on this machine the
//! 32 MiB outbound stream arrives desynchronised at the peer after ~2.5 MB
//! (decode error UnsupportedPacketType in the middle of payload bytes) and the
//! scenario is not reached; that happens below ntex-mqtt and is not part of D4.
use std::future::Future;
use std::sync::atomic::{AtomicBool, Ordering::SeqCst};
use std::sync::{Arc, Mutex};

use ntex::server;
use ntex::time::{Millis, sleep, timeout};
use ntex::util::{ByteString, Bytes, Ready};

use ntex_mqtt::v5::codec::{self, Decoded, Encoded, Packet};
use ntex_mqtt::v5::{Handshake, MqttServer, Publish, PublishAck};

struct St;

#[derive(Debug)]
struct TestError;

impl From<()> for TestError {
    fn from(_: ()) -> Self {
        TestError
    }
}

impl TryFrom<TestError> for PublishAck {
    type Error = TestError;

    fn try_from(err: TestError) -> Result<Self, Self::Error> {
        Err(err)
    }
}

fn block_on<F: Future + 'static>(name: &str, f: F) -> F::Output
where
    F::Output: 'static,
{
    ntex::rt::System::build().name(name).testing().build(ntex::rt::DefaultRuntime).block_on(f)
}

#[derive(Default, Debug, Clone)]
struct Out {
    wrb_seen: bool,
    s: Option<String>,
    r: Option<String>,
    q: Option<String>,
    end_state: Option<String>,
}

const CHUNK: usize = 4096;
const COUNT: usize = 8192;

async fn run(with_streaming_waiter: bool) -> Out {
    let out: Arc<Mutex<Out>> = Arc::new(Mutex::new(Out::default()));
    let out2 = out.clone();
    let parked = Arc::new(AtomicBool::new(false));
    let parked2 = parked.clone();

    let srv = server::test_server(async move || {
        let out = out2.clone();
        let parked = parked2.clone();
        MqttServer::new(move |con: Handshake| {
            let sink = con.sink();
            let out = out.clone();
            let parked = parked.clone();
            ntex::rt::spawn(async move {
                sleep(Millis(100)).await;
                println!("PROBE before flood: is_ready={} credit={}", sink.is_ready(), sink.credit());

                // flood the write buffer, the peer is not reading
                let payload = Bytes::from(vec![b'x'; CHUNK]);
                for _ in 0..COUNT {
                    sink.publish(ByteString::from_static("big"))
                        .send_at_most_once(payload.clone())
                        .unwrap();
                }
                for _ in 0..100 {
                    if !sink.is_ready() {
                        break;
                    }
                    sleep(Millis(20)).await;
                }
                // credit > 0 and !is_ready  <=>  write back-pressure flag is set
                let wrb = !sink.is_ready() && sink.credit() > 0 && sink.is_open();
                println!(
                    "PROBE after flood: is_ready={} credit={} is_open={} => write back-pressure on = {}",
                    sink.is_ready(),
                    sink.credit(),
                    sink.is_open(),
                    wrb
                );
                out.lock().unwrap().wrb_seen = wrb;

                if with_streaming_waiter {
                    let stream =
                        sink.publish(ByteString::from_static("s")).stream_at_most_once(4).unwrap();
                    let o = out.clone();
                    ntex::rt::spawn(async move {
                        let r = stream.send(Bytes::from_static(b"abcd")).await;
                        println!("PROBE S (stream.send) -> {:?}", r);
                        o.lock().unwrap().s = Some(format!("{:?}", r));
                    });
                }
                let (s, o) = (sink.clone(), out.clone());
                ntex::rt::spawn(async move {
                    let r = s.ready().await;
                    println!("PROBE R (sink.ready()) -> {:?}", r);
                    o.lock().unwrap().r = Some(format!("{:?}", r));
                });
                let (s, o) = (sink.clone(), out.clone());
                ntex::rt::spawn(async move {
                    let r =
                        s.publish(ByteString::from_static("q")).send_at_least_once(Bytes::new()).await;
                    println!("PROBE Q (send_at_least_once) -> {:?}", r.as_ref().map(|_| "ack"));
                    o.lock().unwrap().q = Some(format!("{:?}", r.map(|_| "ack")));
                });
                sleep(Millis(100)).await;
                println!("PROBE S/R/Q parked, peer may start reading");
                parked.store(true, SeqCst);

                sleep(Millis(6000)).await;
                // snapshot *before* the connection is torn down by the test
                let (r_now, q_now) = {
                    let o = out.lock().unwrap();
                    (o.r.clone(), o.q.clone())
                };
                let st = format!(
                    "is_ready={} credit={} is_open={} R={:?} Q={:?}",
                    sink.is_ready(),
                    sink.credit(),
                    sink.is_open(),
                    r_now,
                    q_now
                );
                println!("PROBE end state of sink: {}", st);
                out.lock().unwrap().end_state = Some(st);
            });
            Ready::Ok::<_, TestError>(con.ack(St))
        })
        .publish(|p: Publish| Ready::Ok::<_, TestError>(p.ack()))
    });

    // The peer is a plain blocking TcpStream on its own thread (decoding with the
    // crate's codec), so that "peer does not read" / "peer drains" is under the
    // full control of the test.
    let addr = srv.addr();
    let peer = std::thread::spawn(move || {
        use ntex::codec::{Decoder, Encoder};
        use std::io::{Read, Write};

        let codec = codec::Codec::new();
        let mut sock = std::net::TcpStream::connect(addr).unwrap();
        let mut pages = ntex::util::BytePages::default();
        codec
            .encodev(
                Encoded::Packet(codec::Connect::default().client_id("user").into()),
                &mut pages,
            )
            .unwrap();
        sock.write_all(&pages.freeze()).unwrap();

        // do not read (beyond CONNACK) until the server side tasks are parked
        for _ in 0..200 {
            if parked.load(SeqCst) {
                break;
            }
            std::thread::sleep(std::time::Duration::from_millis(50));
        }
        println!("PROBE peer starts draining");
        sock.set_read_timeout(Some(std::time::Duration::from_millis(2500))).unwrap();
        let mut buf = ntex::util::BytesMut::new();
        let mut tmp = vec![0u8; 256 * 1024];
        let (mut big, mut bytes) = (0usize, 0usize);
        'outer: loop {
            match sock.read(&mut tmp) {
                Ok(0) => {
                    println!("PROBE peer: connection closed by server");
                    break;
                }
                Ok(n) => buf.extend_from_slice(&tmp[..n]),
                Err(e) => {
                    println!(
                        "PROBE peer: idle ({:?}), drained {} big publishes / {} payload bytes",
                        e.kind(),
                        big,
                        bytes
                    );
                    break;
                }
            }
            loop {
                match codec.decode(&mut buf) {
                    Ok(Some(Decoded::Publish(p, payload, _))) => {
                        bytes += payload.len();
                        if p.topic == "big" {
                            big += 1;
                        } else {
                            println!(
                                "PROBE peer got PUBLISH topic={:?} qos={:?} after {} big publishes",
                                p.topic, p.qos, big
                            );
                        }
                        if let Some(id) = p.packet_id {
                            // PUBACK, remaining length 2 => reason Success
                            let id = id.get().to_be_bytes();
                            sock.write_all(&[0x40, 0x02, id[0], id[1]]).unwrap();
                        }
                    }
                    Ok(Some(Decoded::PayloadChunk(b, _))) => bytes += b.len(),
                    Ok(Some(Decoded::Packet(Packet::ConnectAck(_), _))) => (),
                    Ok(Some(other)) => println!("PROBE peer got {:?}", other),
                    Ok(None) => break,
                    Err(e) => {
                        println!(
                            "PROBE peer: decode error {:?} after {} big publishes / {} payload bytes; next bytes {:02x?}",
                            e,
                            big,
                            bytes,
                            &buf[..buf.len().min(24)]
                        );
                        break 'outer;
                    }
                }
            }
        }
        sock
    });

    for _ in 0..80 {
        if out.lock().unwrap().end_state.is_some() {
            break;
        }
        sleep(Millis(100)).await;
    }
    drop(peer.join().unwrap());
    drop(srv);
    sleep(Millis(50)).await;
    let res = out.lock().unwrap().clone();
    println!("PROBE-RESULT with_streaming_waiter={} -> {:?}", with_streaming_waiter, res);
    res
}

#[test]
fn d4_v5_control_no_streaming_waiter() {
    let res = block_on("d4_control", run(false));
    assert!(res.wrb_seen, "scenario not reached: write back-pressure was never enabled");
    assert_eq!(res.r.as_deref(), Some("true"));
    assert_eq!(res.q.as_deref(), Some("Ok(\"ack\")"));
}

#[test]
fn d4_v5_streaming_waiter_starves_other_waiters() {
    let res = block_on("d4", run(true));
    assert!(res.wrb_seen, "scenario not reached: write back-pressure was never enabled");
    assert_eq!(res.s.as_deref(), Some("Ok(())"), "streaming waiter");
    assert_eq!(res.r.as_deref(), Some("true"), "ready() waiter never woken");
    assert_eq!(res.q.as_deref(), Some("Ok(\"ack\")"), "send_at_least_once waiter never woken");
}

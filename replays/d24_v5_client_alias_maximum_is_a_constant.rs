//! D24 (C17 / C19), MQTT 5 *client*: the Topic Alias Maximum the client enforces on inbound PUBLISH packets is the constant 16
//! (src/v5/client/connection.rs passes the literal to the dispatcher), not the value the client advertised in its CONNECT.
//!
//! (a) A client that advertises nothing (Topic Alias Maximum absent = 0: "the server MUST NOT send topic aliases") accepts and
//!     binds alias 3.  C17: "an alias ... that exceeds the advertised Topic Alias Maximum ends the connection with a protocol
//!     error instead of reaching the handler".
//! (b) A client that advertises 32 ends the connection when the server uses alias 20, which it was told it may use.
//!
//! Harness adapted from the demonstration of the seeded change C17-h.
use std::{cell::RefCell, num::NonZeroU16, rc::Rc};

use ntex::service::{ServiceFactory, cfg::SharedCfg, fn_factory_with_config, fn_service};
use ntex::util::{ByteString, Bytes, Ready};
use ntex::{rt, server};

use ntex_mqtt::v5::{Handshake, HandshakeAck, MqttServer, Publish, PublishAck, Session, client};
use ntex_mqtt::{Control, Reason};

struct St;

#[derive(Debug)]
struct TestError;

impl From<()> for TestError {
    fn from(_: ()) -> Self {
        TestError
    }
}

impl TryFrom<TestError> for PublishAck {
    type Error = TestError;

    fn try_from(err: TestError) -> Result<Self, Self::Error> {
        Err(err)
    }
}

/// Runs one scenario.
///
/// * `server_alias_max` - Topic Alias Maximum the server puts into CONNACK (`None` - the default
///   taken from the server config, 32)
/// * `seq` - publishes (topic, alias) the server sends to the client, an empty topic means
///   "alias only"
///
/// Returns (Topic Alias Maximum seen in CONNACK, log of what the client observed).
async fn run(
    server_alias_max: Option<u16>,
    client_alias_max: Option<u16>,
    seq: &'static [(&'static str, u16)],
) -> (u16, Vec<String>) {
    let srv = server::test_server(async move || {
        MqttServer::new(move |con: Handshake| async move {
            let mut ack: HandshakeAck<St> = con.ack(St);
            if let Some(max) = server_alias_max {
                ack = ack.with(|pkt| pkt.topic_alias_max = max);
            }
            Ok::<_, TestError>(ack)
        })
        .publish(fn_factory_with_config(move |session: Session<St>| {
            Ready::Ok::<_, TestError>(fn_service(move |p: Publish| {
                // the "go" publish of the client triggers the server-to-client sequence,
                // it is on the wire before the PUBACK for "go"
                for (topic, alias) in seq {
                    session
                        .sink()
                        .publish(ByteString::from_static(topic))
                        .properties(|props| props.topic_alias = NonZeroU16::new(*alias))
                        .send_at_most_once(Bytes::from_static(b"data"))
                        .unwrap();
                }
                Ready::Ok::<_, TestError>(p.ack())
            }))
        }))
    });

    let client = client::MqttConnector::new()
        .pipeline(SharedCfg::default())
        .await
        .unwrap()
        .call({
            let c = client::Connect::new(srv.addr()).client_id("user");
            if let Some(m) = client_alias_max { c.packet(move |p| p.topic_alias_max = m) } else { c }
        })
        .await
        .unwrap();
    let connack_alias_max = client.packet().topic_alias_max;

    let sink = client.sink();
    let log = Rc::new(RefCell::new(Vec::<String>::new()));

    let log1 = log.clone();
    let log2 = log.clone();
    let task = rt::spawn(client.start_with_control(
        fn_service(move |msg: client::ProtocolMessage| {
            let ack = match msg {
                client::ProtocolMessage::Publish(p) => {
                    log1.borrow_mut().push(format!("publish {}", p.packet().topic));
                    p.ack_qos0()
                }
                msg => msg.ack(),
            };
            Ready::Ok::<_, TestError>(ack)
        }),
        fn_service(move |msg: Control<TestError>| {
            if let Control::Stop(Reason::Protocol(err)) = &msg {
                log2.borrow_mut().push(format!("protocol-error {}", err.get_ref()));
            }
            Ready::Ok::<_, TestError>(None)
        }),
    ));

    // returns when the PUBACK arrives (all publishes of `seq` are processed by then) or when
    // the client dropped the connection
    let _ = sink.publish(ByteString::from_static("go")).send_at_least_once(Bytes::new()).await;
    sink.close();
    let _ = task.await;

    let res = log.borrow().clone();
    (connack_alias_max, res)
}


fn block_on<F: std::future::Future + 'static>(name: &str, f: F) -> F::Output where F::Output: 'static {
    ntex::rt::System::build().name(name).testing().build(ntex::rt::DefaultRuntime).block_on(f)
}

#[test]
fn a_client_that_advertised_no_alias_maximum_refuses_an_aliased_publish() {
    let (_m, log) = block_on("d24a", run(None, None, &[("demo/a", 3), ("", 3)]));
    println!("PROBE-RESULT advertised 0, server used alias 3: {:?}", log);
    assert!(
        !log.iter().any(|l| l.starts_with("publish")) && log.iter().any(|l| l.starts_with("protocol-error")),
        "alias 3 exceeds the advertised maximum of 0 but reached the handler: {:?}", log
    );
}

#[test]
fn a_client_that_advertised_32_accepts_alias_20() {
    let (_m, log) = block_on("d24b", run(None, Some(32), &[("demo/b", 20), ("", 20)]));
    println!("PROBE-RESULT advertised 32, server used alias 20: {:?}", log);
    assert_eq!(log, vec!["publish demo/b".to_string(), "publish demo/b".to_string()], "an alias within the advertised maximum ended the connection");
}

#[test]
fn control_aliases_within_both_limits_work() {
    let (_m, log) = block_on("d24c", run(None, Some(16), &[("demo/a", 3), ("", 3)]));
    assert_eq!(log, vec!["publish demo/a".to_string(), "publish demo/a".to_string()]);
}

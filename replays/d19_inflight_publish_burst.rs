//! D19: the in-flight limiting middleware (src/inflight.rs, default middleware of the
//! v3 and v5 servers) must hold back reading while `max_receive` publish handlers are
//! executing (v3) / while the accounted bytes of executing handlers exceed
//! `max_receive_size` (v3 and v5).
//!
//! Suspected: `InFlightServiceImpl::call` sets `self.publish` for EVERY inbound PUBLISH
//! and `ready()` skips the counter while that flag is set. The flag is meant for the
//! payload chunks of a streamed PUBLISH, but it stays set after an ordinary complete
//! PUBLISH until the next non-chunk packet goes through `call`. In a back-to-back burst
//! of PUBLISH packets every `ready()` is answered with the flag still set, so neither
//! limit is enforced.
//!
//! Two kinds of scenario:
//! * burst: all packets are put into the peer's write buffer and flushed once, the server
//!   decodes them from one read buffer inside one dispatcher poll;
//! * paced: one write per packet, the next packet is written only after the handler of
//!   the previous PUBLISH is running, so every `InFlightServiceImpl::call` (flag and
//!   counter update) has run before the next `ready()`. This isolates the `publish` flag:
//!   the counter is up to date and only the flag lets `ready()` through.
//!
//! Observed on the real code (see PROBE-RESULT lines): burst and paced both start all 5
//! handlers with max_receive = 2 / max_receive_size = 20 (v3), the v5 server starts 5
//! handlers = 50 bytes with max_receive_size = 20. With a PINGREQ after the 2nd (3rd)
//! PUBLISH the paced scenario stops at 2 (3) handlers; the one-write burst with the same
//! PINGREQ does not, because the dispatcher (src/io.rs `call_service`) only spawns the
//! `call` futures of the 2nd.. packet of a poll, so the PINGREQ `call` that would clear
//! the flag (and every counter increment) runs after all `ready()` checks of that poll.
//! Diagnostic (scratch copy only, not part of this file): with `self.publish.get() ||`
//! removed from `ready()` the paced scenarios hold (2 resp. 3 handlers) but the one-write
//! bursts still start 5 handlers - the lazily executed `call` is a second, independent
//! way past the limiter.
//!
//! All publish handlers are gated: they register `started`, wait on a oneshot that a
//! helper task fires once the test released the id, then register `finished`.
//! `max_running` (started - finished, evaluated at every handler start) is the number of
//! concurrently executing handlers.
use std::sync::{Arc, Mutex};
use std::{collections::HashSet, num::NonZeroU16, time::Duration, time::Instant};

use ntex::channel::oneshot;
use ntex::server;
use ntex::service::cfg::SharedCfg;
use ntex::time::{Millis, sleep, timeout};
use ntex::util::{ByteString, Bytes};

use ntex_mqtt::MqttServiceConfig;
use ntex_mqtt::{v3, v5};

struct St;

/// The scenarios run to completion inside their own system; the assertions are made
/// afterwards, outside of the runtime (a panic inside a live ntex runtime aborts the
/// whole test process while thread locals are torn down).
fn block_on<F: std::future::Future + 'static>(f: F) -> F::Output
where
    F::Output: 'static,
{
    ntex::rt::System::build().name("d19").testing().build(ntex::rt::DefaultRuntime).block_on(f)
}

#[derive(Default)]
struct Gate {
    started: Vec<u16>,
    released: HashSet<u16>,
    finished: Vec<u16>,
    max_running: usize,
    max_bytes: usize,
    bytes: usize,
}

type SharedGate = Arc<Mutex<Gate>>;

/// body of every gated publish handler
async fn gated(gate: SharedGate, id: u16, size: usize) {
    {
        let mut g = gate.lock().unwrap();
        g.started.push(id);
        g.bytes += size;
        let running = g.started.len() - g.finished.len();
        g.max_running = g.max_running.max(running);
        g.max_bytes = g.max_bytes.max(g.bytes);
    }
    // the handler itself is woken exactly once, when it is released;
    // the cross-thread gate is watched by a helper task
    let (tx, rx) = oneshot::channel();
    let watched = gate.clone();
    ntex::rt::spawn(async move {
        while !watched.lock().unwrap().released.contains(&id) {
            sleep(Millis(5)).await;
        }
        let _ = tx.send(());
    });
    let _ = rx.await;
    let mut g = gate.lock().unwrap();
    g.finished.push(id);
    g.bytes -= size;
}

fn snapshot(gate: &SharedGate) -> (Vec<u16>, Vec<u16>, usize, usize) {
    let g = gate.lock().unwrap();
    (g.started.clone(), g.finished.clone(), g.max_running, g.max_bytes)
}

async fn wait_for(gate: &SharedGate, timeout: Duration, f: impl Fn(&Gate) -> bool) -> bool {
    let deadline = Instant::now() + timeout;
    loop {
        if f(&gate.lock().unwrap()) {
            return true;
        }
        if Instant::now() >= deadline {
            return false;
        }
        sleep(Millis(10)).await;
    }
}

fn release(gate: &SharedGate, id: u16) {
    gate.lock().unwrap().released.insert(id);
}

// ---------------------------------------------------------------------------------
// v3
// ---------------------------------------------------------------------------------

#[derive(Clone, Copy, Debug)]
enum Step {
    Pub(u16),
    Ping,
}

/// v3 QoS 1 publish to topic "t"; remaining length (= accounted size) is 5 + payload
fn v3_publish(id: u16, payload: usize) -> v3::codec::Encoded {
    v3::codec::Encoded::Publish(
        v3::codec::Publish {
            dup: false,
            retain: false,
            qos: v3::codec::QoS::AtLeastOnce,
            topic: ByteString::from("t"),
            packet_id: Some(NonZeroU16::new(id).unwrap()),
            payload_size: payload as u32,
        },
        Some(Bytes::from(vec![b'x'; payload])),
    )
}

struct V3Outcome {
    /// accounted size of every PUBLISH of the scenario
    size: usize,
    /// handlers started 500 ms after the burst, nothing released
    started_before_release: Vec<u16>,
    /// max(started - finished) over the whole scenario
    max_running: usize,
    /// max accounted bytes inside handlers over the whole scenario
    max_bytes: usize,
    /// ids in the order the handlers started / finished over the whole scenario
    started: Vec<u16>,
    finished: Vec<u16>,
    /// what the peer received after CONNACK
    received: Vec<String>,
    /// problems seen in the release phase (handler never started / finished)
    problems: Vec<String>,
}

async fn v3_scenario(
    name: &'static str,
    max_receive: u16,
    max_receive_size: usize,
    payload: usize,
    steps: Vec<Step>,
    paced: bool,
) -> V3Outcome {
    use v3::codec::{Decoded, Encoded, Packet};

    let gate: SharedGate = Arc::new(Mutex::new(Gate::default()));
    let gate2 = gate.clone();
    let size = 5 + payload;

    let srv = server::TestServerBuilder::new(async move || {
        let gate = gate2.clone();
        v3::MqttServer::new(async |packet: v3::Handshake| {
            Ok::<_, ()>(packet.ack(St, false))
        })
        .publish(move |p: v3::Publish| {
            let gate = gate.clone();
            async move {
                let id = p.id().unwrap().get();
                gated(gate, id, size).await;
                Ok(())
            }
        })
    })
    .config(SharedCfg::new("MQTT").add(
        MqttServiceConfig::new()
            .set_max_receive(max_receive)
            .set_max_receive_size(max_receive_size),
    ))
    .start();

    let io = srv.connect().await.unwrap();
    let codec = v3::codec::Codec::default();
    io.send(
        Encoded::Packet(Packet::Connect(
            v3::codec::Connect::default().client_id("user").into(),
        )),
        &codec,
    )
    .await
    .unwrap();
    let ack = io.recv(&codec).await.unwrap().unwrap();
    assert!(matches!(ack, Decoded::Packet(Packet::ConnectAck(_), _)));

    let ids: Vec<u16> =
        steps.iter().filter_map(|s| if let Step::Pub(id) = s { Some(*id) } else { None }).collect();
    if paced {
        // one write per packet; the next packet is written only after the handler of the
        // previous PUBLISH is running (or was not started within 300 ms), 100 ms after a
        // PINGREQ. Every `call` of the middleware has been executed before the next
        // packet is read.
        for step in &steps {
            match step {
                Step::Pub(id) => {
                    let id = *id;
                    io.send(v3_publish(id, payload), &codec).await.unwrap();
                    let st =
                        wait_for(&gate, Duration::from_millis(300), |g| g.started.contains(&id))
                            .await;
                    println!("PROBE {name}: peer wrote PUBLISH {id}, handler started: {st}");
                }
                Step::Ping => {
                    io.send(Encoded::Packet(Packet::PingRequest), &codec).await.unwrap();
                    sleep(Millis(100)).await;
                    println!("PROBE {name}: peer wrote PINGREQ");
                }
            }
        }
    } else {
        // the whole burst goes into the write buffer and is flushed once
        for step in &steps {
            match step {
                Step::Pub(id) => io.encode(v3_publish(*id, payload), &codec).unwrap(),
                Step::Ping => io.encode(Encoded::Packet(Packet::PingRequest), &codec).unwrap(),
            }
        }
        io.flush(true).await.unwrap();
        println!(
            "PROBE {name}: peer wrote {steps:?} back to back (accounted publish size {size})"
        );
    }

    sleep(Millis(500)).await;
    let (started_before_release, fin, _, _) = snapshot(&gate);
    assert!(fin.is_empty());
    println!(
        "PROBE {name}: 500 ms after the burst, nothing released: started {started_before_release:?}"
    );

    // release the handlers one by one, oldest first
    let mut problems = Vec::new();
    for id in &ids {
        let id = *id;
        if !wait_for(&gate, Duration::from_secs(2), |g| g.started.contains(&id)).await {
            problems.push(format!("handler {id} never started"));
            continue;
        }
        release(&gate, id);
        if !wait_for(&gate, Duration::from_secs(2), |g| g.finished.contains(&id)).await {
            problems.push(format!("handler {id} did not finish after release"));
        }
        let (s, f, _, _) = snapshot(&gate);
        println!("PROBE {name}: released {id}: started {s:?} finished {f:?}");
    }

    // collect the answers
    let mut received = Vec::new();
    for _ in 0..steps.len() {
        let r = match timeout(Millis(1500), io.recv(&codec)).await {
            Ok(Ok(Some(Decoded::Packet(Packet::PublishAck { packet_id }, _)))) => {
                format!("PUBACK {packet_id}")
            }
            Ok(Ok(Some(Decoded::Packet(Packet::PingResponse, _)))) => "PINGRESP".to_string(),
            Ok(Ok(Some(other))) => format!("{other:?}"),
            Ok(Ok(None)) => "connection closed".to_string(),
            Ok(Err(e)) => format!("error {e:?}"),
            Err(_) => "timeout".to_string(),
        };
        let stop = r == "timeout" || r == "connection closed" || r.starts_with("error");
        received.push(r);
        if stop {
            break;
        }
    }

    let (started, finished, max_running, max_bytes) = snapshot(&gate);
    // let everything go in any case
    for id in &ids {
        release(&gate, *id);
    }
    drop(io);
    drop(srv);
    sleep(Millis(50)).await;

    V3Outcome {
        size,
        started_before_release,
        max_running,
        max_bytes,
        started,
        finished,
        received,
        problems,
    }
}

fn pubacks(received: &[String]) -> Vec<String> {
    let mut v: Vec<String> =
        received.iter().filter(|r| r.starts_with("PUBACK")).cloned().collect();
    v.sort();
    v
}

fn five() -> Vec<Step> {
    (1..=5).map(Step::Pub).collect()
}

/// max_receive = 2, burst of 5 QoS1 PUBLISH: at most 2 handlers may execute at once.
#[test]
fn d19_v3_max_receive_publish_burst() {
    let o = block_on(v3_scenario("v3_max_receive_burst", 2, 0, 0, five(), false));
    println!(
        "PROBE-RESULT d19_v3_max_receive_publish_burst: max_receive=2, burst of 5 PUBLISH: \
         handlers started before any release = {} {:?}; max concurrently executing = {}",
        o.started_before_release.len(),
        o.started_before_release,
        o.max_running
    );
    println!(
        "PROBE-RESULT d19_v3_max_receive_publish_burst: release phase: started {:?} finished {:?} \
         received {:?} problems {:?}",
        o.started, o.finished, o.received, o.problems
    );
    // liveness part: everything is handled in the end
    assert!(o.problems.is_empty(), "{:?}", o.problems);
    assert_eq!(o.finished.len(), 5);
    assert_eq!(
        pubacks(&o.received),
        vec!["PUBACK 1", "PUBACK 2", "PUBACK 3", "PUBACK 4", "PUBACK 5"]
    );
    // the limit
    assert!(
        o.started_before_release.len() <= 2 && o.max_running <= 2,
        "max_receive = 2 but {} publish handlers were started before any of them finished \
         (max concurrently executing {})",
        o.started_before_release.len(),
        o.max_running
    );
}

/// control: PUBLISH 1, PUBLISH 2, PINGREQ, PUBLISH 3, 4, 5
#[test]
fn d19_v3_max_receive_with_ping_control() {
    let steps =
        vec![Step::Pub(1), Step::Pub(2), Step::Ping, Step::Pub(3), Step::Pub(4), Step::Pub(5)];
    let o = block_on(v3_scenario("v3_max_receive_ping", 2, 0, 0, steps, false));
    println!(
        "PROBE-RESULT d19_v3_max_receive_with_ping_control: max_receive=2, PUBLISH 1 2 PINGREQ \
         PUBLISH 3 4 5: handlers started before any release = {} {:?}; max concurrently \
         executing = {}",
        o.started_before_release.len(),
        o.started_before_release,
        o.max_running
    );
    println!(
        "PROBE-RESULT d19_v3_max_receive_with_ping_control: release phase: started {:?} \
         finished {:?} received {:?} problems {:?}",
        o.started, o.finished, o.received, o.problems
    );
    assert!(o.problems.is_empty(), "{:?}", o.problems);
    assert_eq!(o.finished.len(), 5);
    assert_eq!(
        pubacks(&o.received),
        vec!["PUBACK 1", "PUBACK 2", "PUBACK 3", "PUBACK 4", "PUBACK 5"]
    );
    assert!(
        o.started_before_release.len() <= 2 && o.max_running <= 2,
        "max_receive = 2 but {} publish handlers were started before any of them finished \
         (max concurrently executing {})",
        o.started_before_release.len(),
        o.max_running
    );
}

/// max_receive_size = 20, burst of 5 QoS1 PUBLISH of accounted size 10:
/// 10 + 10 = 20 is within the limit, the third makes 30 > 20, reading has to stop.
#[test]
fn d19_v3_max_receive_size_publish_burst() {
    let o = block_on(v3_scenario("v3_max_receive_size_burst", 0, 20, 5, five(), false));
    println!(
        "PROBE-RESULT d19_v3_max_receive_size_publish_burst: max_receive_size=20, burst of 5 \
         PUBLISH of 10 bytes: handlers started before any release = {} {:?} (= {} bytes); \
         max bytes inside handlers = {}; max concurrently executing = {}",
        o.started_before_release.len(),
        o.started_before_release,
        o.started_before_release.len() * 10,
        o.max_bytes,
        o.max_running
    );
    println!(
        "PROBE-RESULT d19_v3_max_receive_size_publish_burst: release phase: started {:?} \
         finished {:?} received {:?} problems {:?}",
        o.started, o.finished, o.received, o.problems
    );
    assert!(o.problems.is_empty(), "{:?}", o.problems);
    assert_eq!(o.finished.len(), 5);
    assert_eq!(
        pubacks(&o.received),
        vec!["PUBACK 1", "PUBACK 2", "PUBACK 3", "PUBACK 4", "PUBACK 5"]
    );
    assert!(
        o.started_before_release.len() <= 3 && o.max_bytes <= 30,
        "max_receive_size = 20 but {} publish handlers ({} bytes) were started before any of \
         them finished (max bytes inside handlers {})",
        o.started_before_release.len(),
        o.started_before_release.len() * 10,
        o.max_bytes
    );
}

fn report(test: &str, what: &str, o: &V3Outcome) {
    println!(
        "PROBE-RESULT {test}: {what}: handlers started before any release = {} {:?} \
         (= {} bytes); max concurrently executing = {}; max bytes inside handlers = {}",
        o.started_before_release.len(),
        o.started_before_release,
        o.size * o.started_before_release.len(),
        o.max_running,
        o.max_bytes
    );
    println!(
        "PROBE-RESULT {test}: release phase: started {:?} finished {:?} received {:?} \
         problems {:?}",
        o.started, o.finished, o.received, o.problems
    );
}

fn check_liveness(o: &V3Outcome) {
    assert!(o.problems.is_empty(), "{:?}", o.problems);
    assert_eq!(o.finished.len(), 5);
    assert_eq!(
        pubacks(&o.received),
        vec!["PUBACK 1", "PUBACK 2", "PUBACK 3", "PUBACK 4", "PUBACK 5"]
    );
}

/// Paced variant of the burst: every PUBLISH is written only after the handler of the
/// previous one is running, so every `InFlightServiceImpl::call` (flag and counter
/// update) has been executed before the next `ready()`. No other packet in between.
#[test]
fn d19_v3_max_receive_paced_publishes() {
    let o = block_on(v3_scenario("v3_max_receive_paced", 2, 0, 0, five(), true));
    report(
        "d19_v3_max_receive_paced_publishes",
        "max_receive=2, PUBLISH 1..5 one write each, paced",
        &o,
    );
    check_liveness(&o);
    assert!(
        o.started_before_release.len() <= 2 && o.max_running <= 2,
        "max_receive = 2 but {} publish handlers were started before any of them finished",
        o.started_before_release.len()
    );
}

/// Paced control: PUBLISH 1, PUBLISH 2, PINGREQ, PUBLISH 3, 4, 5, one write each.
#[test]
fn d19_v3_max_receive_paced_with_ping_control() {
    let steps =
        vec![Step::Pub(1), Step::Pub(2), Step::Ping, Step::Pub(3), Step::Pub(4), Step::Pub(5)];
    let o = block_on(v3_scenario("v3_max_receive_paced_ping", 2, 0, 0, steps, true));
    report(
        "d19_v3_max_receive_paced_with_ping_control",
        "max_receive=2, PUBLISH 1 2 PINGREQ PUBLISH 3 4 5 one write each, paced",
        &o,
    );
    check_liveness(&o);
    // control: only the phase before the first release is asserted. In the release phase
    // PUBLISH 3, 4, 5 are read as an uninterrupted burst again (see max concurrently
    // executing in the PROBE-RESULT line).
    assert!(
        o.started_before_release.len() <= 2,
        "max_receive = 2 but {} publish handlers were started before any of them finished",
        o.started_before_release.len()
    );
}

/// Paced variant of the byte limit.
#[test]
fn d19_v3_max_receive_size_paced_publishes() {
    let o = block_on(v3_scenario("v3_max_receive_size_paced", 0, 20, 5, five(), true));
    report(
        "d19_v3_max_receive_size_paced_publishes",
        "max_receive_size=20, PUBLISH 1..5 of 10 bytes one write each, paced",
        &o,
    );
    check_liveness(&o);
    assert!(
        o.started_before_release.len() <= 3 && o.max_bytes <= 30,
        "max_receive_size = 20 but {} publish handlers were started before any of them \
         finished (max bytes inside handlers {})",
        o.started_before_release.len(),
        o.max_bytes
    );
}

/// Paced control of the byte limit: PINGREQ after the third PUBLISH (30 > 20).
#[test]
fn d19_v3_max_receive_size_paced_with_ping_control() {
    let steps =
        vec![Step::Pub(1), Step::Pub(2), Step::Pub(3), Step::Ping, Step::Pub(4), Step::Pub(5)];
    let o = block_on(v3_scenario("v3_max_receive_size_paced_ping", 0, 20, 5, steps, true));
    report(
        "d19_v3_max_receive_size_paced_with_ping_control",
        "max_receive_size=20, PUBLISH 1 2 3 PINGREQ PUBLISH 4 5 of 10 bytes one write each, paced",
        &o,
    );
    check_liveness(&o);
    // control: only the phase before the first release is asserted
    assert!(
        o.started_before_release.len() <= 3,
        "max_receive_size = 20 but {} publish handlers were started before any of them \
         finished (max bytes inside handlers {})",
        o.started_before_release.len(),
        o.max_bytes
    );
}

// ---------------------------------------------------------------------------------
// v5
// ---------------------------------------------------------------------------------

#[derive(Debug)]
struct TestError;

impl From<()> for TestError {
    fn from(_: ()) -> Self {
        TestError
    }
}

impl TryFrom<TestError> for v5::PublishAck {
    type Error = TestError;

    fn try_from(err: TestError) -> Result<Self, Self::Error> {
        Err(err)
    }
}

/// v5 QoS 1 publish to topic "t", no properties; remaining length is 6 + payload
fn v5_publish(id: u16, payload: usize) -> v5::codec::Encoded {
    v5::codec::Encoded::Publish(
        v5::codec::Publish {
            dup: false,
            retain: false,
            qos: v5::codec::QoS::AtLeastOnce,
            topic: ByteString::from("t"),
            packet_id: NonZeroU16::new(id),
            payload_size: payload as u32,
            properties: Default::default(),
        },
        Some(Bytes::from(vec![b'x'; payload])),
    )
}

/// returns (started before any release, max bytes before release, received packets)
async fn v5_scenario(
    name: &'static str,
    max_receive: u16,
    max_receive_size: usize,
    payload: usize,
    count: u16,
) -> (Vec<u16>, usize, Vec<String>) {
    use v5::codec::{Decoded, Encoded, Packet};

    let gate: SharedGate = Arc::new(Mutex::new(Gate::default()));
    let gate2 = gate.clone();
    let size = 6 + payload;

    let srv = server::TestServerBuilder::new(async move || {
        let gate = gate2.clone();
        v5::MqttServer::new(async |packet: v5::Handshake| {
            Ok::<_, TestError>(packet.ack(St))
        })
        .publish(move |p: v5::Publish| {
            let gate = gate.clone();
            async move {
                let id = p.id().unwrap().get();
                gated(gate, id, size).await;
                Ok::<_, TestError>(p.ack())
            }
        })
    })
    .config(SharedCfg::new("MQTT").add(
        MqttServiceConfig::new()
            .set_max_receive(max_receive)
            .set_max_receive_size(max_receive_size),
    ))
    .start();

    let io = srv.connect().await.unwrap();
    let codec = v5::codec::Codec::new();
    io.send(Encoded::Packet(v5::codec::Connect::default().client_id("user").into()), &codec)
        .await
        .unwrap();
    match io.recv(&codec).await.unwrap().unwrap() {
        Decoded::Packet(Packet::ConnectAck(ack), _) => {
            println!("PROBE {name}: CONNACK receive_max={}", ack.receive_max);
        }
        other => panic!("unexpected {other:?}"),
    }

    for id in 1..=count {
        io.encode(v5_publish(id, payload), &codec).unwrap();
    }
    io.flush(true).await.unwrap();
    println!("PROBE {name}: peer wrote {count} PUBLISH back to back (accounted size {size})");

    sleep(Millis(500)).await;
    let (started_before_release, fin, _, max_bytes) = snapshot(&gate);
    assert!(fin.is_empty());
    println!(
        "PROBE {name}: 500 ms after the burst, nothing released: started {started_before_release:?}"
    );

    for id in 1..=count {
        release(&gate, id);
    }

    let mut received = Vec::new();
    for _ in 0..count {
        let r = match timeout(Millis(1500), io.recv(&codec)).await {
            Ok(Ok(Some(Decoded::Packet(Packet::PublishAck(a), _)))) => {
                format!("PUBACK {} {:?}", a.packet_id, a.reason_code)
            }
            Ok(Ok(Some(Decoded::Packet(Packet::Disconnect(a), _)))) => {
                format!("DISCONNECT {:?} {:?}", a.reason_code, a.reason_string)
            }
            Ok(Ok(Some(other))) => format!("{other:?}"),
            Ok(Ok(None)) => "connection closed".to_string(),
            Ok(Err(e)) => format!("error {e:?}"),
            Err(_) => "timeout".to_string(),
        };
        let stop = r == "timeout"
            || r == "connection closed"
            || r.starts_with("error")
            || r.starts_with("DISCONNECT");
        received.push(r);
        if stop {
            break;
        }
    }
    drop(io);
    drop(srv);
    sleep(Millis(50)).await;
    (started_before_release, max_bytes, received)
}

/// v5: the number of unacknowledged PUBLISH is a protocol matter (Receive Maximum),
/// the middleware is created with max_cap = 0. Record only.
#[test]
fn d19_v5_receive_max_burst_is_a_protocol_matter() {
    let (started, _, received) = block_on(v5_scenario("v5_receive_max", 2, 0, 0, 3));
    println!(
        "PROBE-RESULT d19_v5_receive_max_burst_is_a_protocol_matter: max_receive=2, burst of 3 \
         PUBLISH: handlers started before any release = {} {:?}; received {:?}",
        started.len(),
        started,
        received
    );
    assert!(
        received.iter().any(|r| r.starts_with("DISCONNECT ReceiveMaximumExceeded")),
        "{received:?}"
    );
}

/// v5: the byte limit of the same middleware, max_receive_size = 20, burst of 5 PUBLISH of
/// accounted size 10 (Receive Maximum 16 is not in the way).
#[test]
fn d19_v5_max_receive_size_publish_burst() {
    let (started, max_bytes, received) = block_on(v5_scenario("v5_max_receive_size", 16, 20, 4, 5));
    println!(
        "PROBE-RESULT d19_v5_max_receive_size_publish_burst: max_receive_size=20, burst of 5 \
         PUBLISH of 10 bytes: handlers started before any release = {} {:?} (= {} bytes); \
         max bytes inside handlers = {}; received after releasing all {:?}",
        started.len(),
        started,
        started.len() * 10,
        max_bytes,
        received
    );
    assert!(
        started.len() <= 3 && max_bytes <= 30,
        "max_receive_size = 20 but {} publish handlers ({} bytes) were started before any of \
         them finished",
        started.len(),
        started.len() * 10
    );
}

//! D13 (C08), MQTT 3.1.1: a PUBREL is written into the middle of a streamed
//! outbound PUBLISH.
//!
//! Server-side sink: QoS2 exchange A (`send_exactly_once`) has been answered with
//! PUBREC, the application holds the `PublishReceived`. Then a streamed publish B
//! of 10 payload bytes is started, first chunk "AAAA" sent. Now
//! `received.release()` is called for A, and afterwards the last chunk "BBBBBB"
//! of B is sent.
//!
//! The peer reads the raw bytes that follow PUBLISH A and parses them by hand.
//!
//! Correct behaviour: the bytes after B's header are exactly B's payload; the
//! PUBREL comes after it (or `release()` reports an error / the connection is
//! aborted, and what was received of the payload region is a prefix of the payload).
//! Suspected (v3): `62 02 00 01` appears inside B's payload region, because
//! `MqttShared::release_publish` does not consult the streaming guard and the v3
//! codec does not check `encoding_payload` for `Encoded::Packet`.
//! v5 control: the codec answers `ExpectPayload`, `release()` returns
//! `Err(Encode(ExpectPayload))`.
use std::future::Future;
use std::sync::{Arc, Mutex};

use ntex::codec::BytesCodec;
use ntex::server;
use ntex::time::{Millis, sleep, timeout};
use ntex::util::{ByteString, Bytes, Ready};

const SIZE: u32 = 10;
const PAYLOAD: &[u8] = b"AAAABBBBBB";

struct St;

fn block_on<F: Future + 'static>(name: &str, f: F) -> F::Output
where
    F::Output: 'static,
{
    ntex::rt::System::build().name(name).testing().build(ntex::rt::DefaultRuntime).block_on(f)
}

#[derive(Clone, Copy, Debug, PartialEq)]
enum Stream {
    Qos0,
    Qos1,
}

fn hex(b: &[u8]) -> String {
    b.iter().map(|b| format!("{:02x}", b)).collect::<Vec<_>>().join(" ")
}

/// Parses fixed + variable header of a PUBLISH at the start of `b`.
/// Returns (header length in bytes, payload length announced).
fn publish_header(b: &[u8], v5: bool) -> Option<(usize, usize)> {
    if b.len() < 2 || b[0] & 0xf0 != 0x30 {
        return None;
    }
    let qos = (b[0] >> 1) & 3;
    // remaining length
    let (mut rl, mut pos, mut shift) = (0usize, 1usize, 0);
    loop {
        let x = *b.get(pos)?;
        pos += 1;
        rl |= ((x & 0x7f) as usize) << shift;
        shift += 7;
        if x & 0x80 == 0 {
            break;
        }
    }
    let var_start = pos;
    let tl = ((*b.get(pos)? as usize) << 8) | *b.get(pos + 1)? as usize;
    pos += 2 + tl;
    if qos > 0 {
        pos += 2;
    }
    if v5 {
        // property length, single byte is enough here
        let pl = *b.get(pos)? as usize;
        assert!(pl < 0x80);
        pos += 1 + pl;
    }
    if b.len() < pos {
        return None;
    }
    Some((pos, rl - (pos - var_start)))
}

#[derive(Debug, Clone, Default)]
struct Obs {
    /// result strings on the sink side
    sink: Vec<String>,
    raw: Vec<u8>,
    closed: bool,
}

struct Verdict {
    region: Vec<u8>,
    after: Vec<u8>,
}

fn analyse(name: &str, obs: &Obs, v5: bool) -> Verdict {
    println!("PROBE {}: raw bytes after PUBLISH A = [{}] closed={}", name, hex(&obs.raw), obs.closed);
    let (hdr, plen) = publish_header(&obs.raw, v5)
        .unwrap_or_else(|| panic!("{}: no PUBLISH header at start of [{}]", name, hex(&obs.raw)));
    assert_eq!(plen, SIZE as usize, "{}: announced payload length", name);
    let end = std::cmp::min(obs.raw.len(), hdr + plen);
    let region = obs.raw[hdr..end].to_vec();
    let after = obs.raw[end..].to_vec();
    println!(
        "PROBE-RESULT {}: header=[{}] payload region ({} of {} bytes)=[{}] = {:?} | after=[{}] | closed={} | sink: {:?}",
        name,
        hex(&obs.raw[..hdr]),
        region.len(),
        plen,
        hex(&region),
        String::from_utf8_lossy(&region),
        hex(&after),
        obs.closed,
        obs.sink
    );
    Verdict { region, after }
}

fn check(name: &str, obs: &Obs, v5: bool) {
    let v = analyse(name, obs, v5);
    assert!(
        PAYLOAD.starts_with(&v.region),
        "{}: foreign bytes inside the payload region of the streamed PUBLISH: [{}] (expected a prefix of [{}]); bytes after region: [{}]",
        name,
        hex(&v.region),
        hex(PAYLOAD),
        hex(&v.after)
    );
    if v.region.len() < SIZE as usize {
        assert!(obs.closed, "{}: payload incomplete and connection still open", name);
    }
}

mod v3 {
    use super::*;
    use ntex_mqtt::v3::codec::{self, Decoded, Encoded, Packet};
    use ntex_mqtt::v3::{Handshake, MqttServer};

    pub async fn run(stream: Stream, do_release: bool) -> Obs {
        let out: Arc<Mutex<Obs>> = Arc::new(Mutex::new(Obs::default()));
        let out2 = out.clone();

        let srv = server::test_server(async move || {
            let out = out2.clone();
            MqttServer::new(move |con: Handshake| {
                let sink = con.sink();
                let out = out.clone();
                ntex::rt::spawn(async move {
                    sleep(Millis(100)).await;
                    let out2 = out.clone();
                    let log = move |s: String| {
                        println!("PROBE sink: {}", s);
                        out2.lock().unwrap().sink.push(s);
                    };
                    // exchange A: QoS2 publish, wait for PUBREC
                    let received = match timeout(
                        Millis(2000),
                        sink.publish(ByteString::from_static("a"))
                            .send_exactly_once(Bytes::from_static(b"pa")),
                    )
                    .await
                    {
                        Ok(Ok(r)) => r,
                        other => {
                            log(format!("send_exactly_once -> {:?}", other.map(|r| r.map(|_| ()))));
                            return;
                        }
                    };
                    log("A: PUBREC received".to_string());

                    // publish B, streamed
                    let b = sink.publish(ByteString::from_static("s"));
                    let pl = match stream {
                        Stream::Qos0 => match b.stream_at_most_once(SIZE) {
                            Ok(pl) => pl,
                            Err(e) => {
                                log(format!("stream_at_most_once -> Err({:?})", e));
                                return;
                            }
                        },
                        Stream::Qos1 => {
                            let (fut, pl) = b.stream_at_least_once(SIZE);
                            let out = out.clone();
                            ntex::rt::spawn(async move {
                                let r = timeout(Millis(2500), fut).await;
                                println!("PROBE sink: stream_at_least_once future -> {:?}", r);
                                out.lock().unwrap().sink.push(format!("fut={:?}", r));
                            });
                            pl
                        }
                    };
                    let r = pl.send(Bytes::from_static(b"AAAA")).await;
                    log(format!("chunk1={:?}", r));
                    sleep(Millis(300)).await;

                    // release A while B is being streamed
                    let mut held = None;
                    if do_release {
                        let log = log.clone();
                        ntex::rt::spawn(async move {
                            let r = timeout(Millis(3000), received.release()).await;
                            log(format!("release={:?}", r));
                        });
                    } else {
                        held = Some(received);
                    }
                    sleep(Millis(300)).await;

                    let r = timeout(Millis(1000), pl.send(Bytes::from_static(b"BBBBBB"))).await;
                    log(format!("chunk2={:?}", r));
                    sleep(Millis(100)).await;
                    log(format!("is_open={}", sink.is_open()));
                    if let Some(received) = held {
                        // control run: release after the streamed publish is complete
                        let r = timeout(Millis(3000), received.release()).await;
                        log(format!("release={:?}", r));
                    }
                });
                Ready::Ok::<_, ()>(con.ack(St, false))
            })
            .publish(|_| Ready::Ok::<_, ()>(()))
        });

        // raw peer
        let io = srv.connect().await.unwrap();
        let codec = codec::Codec::new();
        io.send(Encoded::Packet(codec::Connect::default().client_id("user").into()), &codec)
            .await
            .unwrap();
        let _ = io.recv(&codec).await.unwrap().unwrap();

        // PUBLISH A (qos2) -> PUBREC
        match timeout(Millis(2000), io.recv(&codec)).await {
            Ok(Ok(Some(Decoded::Publish(p, _, _)))) => {
                println!("PROBE peer got PUBLISH A id={:?} qos={:?}", p.packet_id, p.qos);
                let id = p.packet_id.unwrap();
                io.send(Encoded::Packet(Packet::PublishReceived { packet_id: id }), &codec).await.unwrap();
            }
            other => panic!("expected PUBLISH A, got {:?}", other),
        }

        collect(&io, &out).await;
        // answer a PUBREL (wherever it is in the byte stream) with PUBCOMP
        let raw = out.lock().unwrap().raw.clone();
        if let Some(pos) = raw.windows(2).position(|w| w[0] == 0x62 && (w[1] == 0x02 || w[1] == 0x04)) {
            println!("PROBE peer: PUBREL bytes found at offset {} of the raw stream, sending PUBCOMP", pos);
            let id = std::num::NonZeroU16::new(1).unwrap();
            let _ = io.send(Encoded::Packet(Packet::PublishComplete { packet_id: id }), &codec).await;
        } else {
            println!("PROBE peer: no PUBREL bytes in the raw stream");
        }
        for _ in 0..35 {
            if out.lock().unwrap().sink.iter().any(|s| s.starts_with("release")) {
                break;
            }
            sleep(Millis(100)).await;
        }
        drop(io);
        drop(srv);
        sleep(Millis(50)).await;
        let res = out.lock().unwrap().clone();
        res
    }
}

mod v5 {
    use super::*;
    use ntex_mqtt::v5::codec::{self, Decoded, Encoded, Packet};
    use ntex_mqtt::v5::{Handshake, MqttServer, Publish, PublishAck};

    #[derive(Debug)]
    pub struct TestError;

    impl From<()> for TestError {
        fn from(_: ()) -> Self {
            TestError
        }
    }

    impl TryFrom<TestError> for PublishAck {
        type Error = TestError;

        fn try_from(err: TestError) -> Result<Self, Self::Error> {
            Err(err)
        }
    }

    pub async fn run(stream: Stream, do_release: bool) -> Obs {
        let out: Arc<Mutex<Obs>> = Arc::new(Mutex::new(Obs::default()));
        let out2 = out.clone();

        let srv = server::test_server(async move || {
            let out = out2.clone();
            MqttServer::new(move |con: Handshake| {
                let sink = con.sink();
                let out = out.clone();
                ntex::rt::spawn(async move {
                    sleep(Millis(100)).await;
                    let out2 = out.clone();
                    let log = move |s: String| {
                        println!("PROBE sink: {}", s);
                        out2.lock().unwrap().sink.push(s);
                    };
                    // exchange A: QoS2 publish, wait for PUBREC
                    let received = match timeout(
                        Millis(2000),
                        sink.publish(ByteString::from_static("a"))
                            .send_exactly_once(Bytes::from_static(b"pa")),
                    )
                    .await
                    {
                        Ok(Ok(r)) => r,
                        other => {
                            log(format!("send_exactly_once -> {:?}", other.map(|r| r.map(|_| ()))));
                            return;
                        }
                    };
                    log("A: PUBREC received".to_string());

                    // publish B, streamed
                    let b = sink.publish(ByteString::from_static("s"));
                    let pl = match stream {
                        Stream::Qos0 => match b.stream_at_most_once(SIZE) {
                            Ok(pl) => pl,
                            Err(e) => {
                                log(format!("stream_at_most_once -> Err({:?})", e));
                                return;
                            }
                        },
                        Stream::Qos1 => {
                            let (fut, pl) = b.stream_at_least_once(SIZE);
                            let out = out.clone();
                            ntex::rt::spawn(async move {
                                let r = timeout(Millis(2500), fut).await;
                                println!("PROBE sink: stream_at_least_once future -> {:?}", r);
                                out.lock().unwrap().sink.push(format!("fut={:?}", r));
                            });
                            pl
                        }
                    };
                    let r = pl.send(Bytes::from_static(b"AAAA")).await;
                    log(format!("chunk1={:?}", r));
                    sleep(Millis(300)).await;

                    // release A while B is being streamed
                    let mut held = None;
                    if do_release {
                        let log = log.clone();
                        ntex::rt::spawn(async move {
                            let r = timeout(Millis(3000), received.release()).await;
                            log(format!("release={:?}", r));
                        });
                    } else {
                        held = Some(received);
                    }
                    sleep(Millis(300)).await;

                    let r = timeout(Millis(1000), pl.send(Bytes::from_static(b"BBBBBB"))).await;
                    log(format!("chunk2={:?}", r));
                    sleep(Millis(100)).await;
                    log(format!("is_open={}", sink.is_open()));
                    if let Some(received) = held {
                        // control run: release after the streamed publish is complete
                        let r = timeout(Millis(3000), received.release()).await;
                        log(format!("release={:?}", r));
                    }
                });
                Ready::Ok::<_, TestError>(con.ack(St))
            })
            .publish(|p: Publish| Ready::Ok::<_, TestError>(p.ack()))
        });

        // raw peer
        let io = srv.connect().await.unwrap();
        let codec = codec::Codec::new();
        io.send(Encoded::Packet(codec::Connect::default().client_id("user").into()), &codec)
            .await
            .unwrap();
        let _ = io.recv(&codec).await.unwrap().unwrap();

        // PUBLISH A (qos2) -> PUBREC
        match timeout(Millis(2000), io.recv(&codec)).await {
            Ok(Ok(Some(Decoded::Publish(p, _, _)))) => {
                println!("PROBE peer got PUBLISH A id={:?} qos={:?}", p.packet_id, p.qos);
                let id = p.packet_id.unwrap();
                io.send(Encoded::Packet(Packet::PublishReceived(codec::PublishAck {
                    packet_id: id,
                    reason_code: codec::PublishAckReason::Success,
                    properties: Default::default(),
                    reason_string: None,
                })), &codec).await.unwrap();
            }
            other => panic!("expected PUBLISH A, got {:?}", other),
        }

        collect(&io, &out).await;
        // answer a PUBREL (wherever it is in the byte stream) with PUBCOMP
        let raw = out.lock().unwrap().raw.clone();
        if let Some(pos) = raw.windows(2).position(|w| w[0] == 0x62 && (w[1] == 0x02 || w[1] == 0x04)) {
            println!("PROBE peer: PUBREL bytes found at offset {} of the raw stream, sending PUBCOMP", pos);
            let id = std::num::NonZeroU16::new(1).unwrap();
            let _ = io.send(Encoded::Packet(Packet::PublishComplete(codec::PublishAck2 {
                packet_id: id,
                reason_code: codec::PublishAck2Reason::Success,
                properties: Default::default(),
                reason_string: None,
            })), &codec).await;
        } else {
            println!("PROBE peer: no PUBREL bytes in the raw stream");
        }
        for _ in 0..35 {
            if out.lock().unwrap().sink.iter().any(|s| s.starts_with("release")) {
                break;
            }
            sleep(Millis(100)).await;
        }
        drop(io);
        drop(srv);
        sleep(Millis(50)).await;
        let res = out.lock().unwrap().clone();
        res
    }
}

/// reads raw bytes until the server is silent for 1.5 s or closes
async fn collect(io: &ntex::io::Io, out: &Arc<Mutex<Obs>>) {
    loop {
        match timeout(Millis(1500), io.recv(&BytesCodec)).await {
            Ok(Ok(Some(b))) => {
                println!("PROBE peer raw <- [{}]", hex(&b));
                out.lock().unwrap().raw.extend_from_slice(&b);
            }
            Ok(Ok(None)) => {
                println!("PROBE peer: connection closed by server");
                out.lock().unwrap().closed = true;
                break;
            }
            Ok(Err(e)) => {
                println!("PROBE peer: recv error {:?}", e);
                out.lock().unwrap().closed = true;
                break;
            }
            Err(_) => {
                println!("PROBE peer: silent for 1.5s");
                break;
            }
        }
    }
}

// ---- MQTT 3.1.1 ----

#[test]
fn d13_v3_control_release_after_stream() {
    let obs = block_on("d13_v3_c", v3::run(Stream::Qos0, false));
    check("v3 qos0-stream / release afterwards", &obs, false);
    assert!(obs.sink.iter().any(|s| s == "release=Ok(Ok(()))"), "{:?}", obs.sink);
}

#[test]
fn d13_v3_qos0_stream_release() {
    let obs = block_on("d13_v3_a", v3::run(Stream::Qos0, true));
    check("v3 qos0-stream / release() in between", &obs, false);
}

#[test]
fn d13_v3_qos1_stream_release() {
    let obs = block_on("d13_v3_b", v3::run(Stream::Qos1, true));
    check("v3 qos1-stream / release() in between", &obs, false);
}

// ---- MQTT 5 (control) ----

#[test]
fn d13_v5_control_release_after_stream() {
    let obs = block_on("d13_v5_c", v5::run(Stream::Qos0, false));
    check("v5 qos0-stream / release afterwards", &obs, true);
    assert!(obs.sink.iter().any(|s| s == "release=Ok(Ok(()))"), "{:?}", obs.sink);
}

#[test]
fn d13_v5_qos0_stream_release() {
    let obs = block_on("d13_v5_a", v5::run(Stream::Qos0, true));
    check("v5 qos0-stream / release() in between", &obs, true);
    assert!(obs.sink.iter().any(|s| s.contains("ExpectPayload")), "{:?}", obs.sink);
}

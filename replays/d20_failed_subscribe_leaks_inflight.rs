//! D20: client sinks, `SubscribeBuilder::send` / `UnsubscribeBuilder::send`
//! (src/v5/sink.rs, src/v3/sink.rs).
//!
//! The builder registers the exchange first
//! (`shared.wait_response(packet_id, AckType::Subscribe)`: pushes
//! `(id, Some(tx), Subscribe)` on `MqttShared::queues.inflight` and inserts the id into
//! `inflight_ids`) and only then calls `shared.encode_packet(Packet::Subscribe(..))`.
//! When the encode fails, `send()` returns `Err(SendPacketError::Encode(..))` and the
//! registration is not undone. Nothing was written, so the peer never acknowledges that
//! id. Suspected consequences:
//!   (a) the id is leaked (`PacketIdInUse` for a later send with that id),
//!   (b) the slot counts against the send window (`credit()`) for ever,
//!   (c) `pkt_ack_inner` compares every acknowledgement with the OLDEST in-flight entry,
//!       so the next correct PUBACK/SUBACK of the peer is matched with the dead entry,
//!       reported as "packet id mismatch" and the client tears the connection down.
//!
//! Triggers used here (both leave NO bytes in the write buffer, so the observation is
//! not mixed up with D11 "a failed encode leaves bytes"):
//!   * v5: CONNACK announces Maximum Packet Size 40, the SUBSCRIBE has a 100 byte filter
//!     -> `EncodeError::OverMaxPacketSize` (size check precedes the encoding);
//!   * v3: SUBSCRIBE while a streamed QoS0 publish is incomplete
//!     -> `EncodeError::ExpectPayload` (`check_streaming()` precedes the encoding).
//!
//! The peer is a raw "server" (plain Io + codec) that answers CONNECT with CONNACK,
//! SUBSCRIBE with SUBACK (same id), PUBLISH QoS1 with PUBACK (same id), PINGREQ with
//! PINGRESP and logs everything it sees.
use std::future::Future;
use std::sync::{Arc, Mutex};

use ntex::io::Io;
use ntex::server;
use ntex::service::{ServiceFactory, cfg::SharedCfg, fn_service};
use ntex::time::{Millis, sleep, timeout};
use ntex::util::{ByteString, Bytes};

use ntex_mqtt::error::SendPacketError;
use ntex_mqtt::{Control, v3, v5};

type Log = Arc<Mutex<Vec<String>>>;

fn block_on<F: Future + 'static>(name: &str, f: F) -> F::Output
where
    F::Output: 'static,
{
    ntex::rt::System::build().name(name).testing().build(ntex::rt::DefaultRuntime).block_on(f)
}

fn push(log: &Log, s: String) {
    println!("PROBE {}", s);
    log.lock().unwrap().push(s);
}

fn snapshot(log: &Log) -> Vec<String> {
    log.lock().unwrap().clone()
}

// ------------------------------------------------------------------ v5

mod p5 {
    pub use ntex_mqtt::v5::client;
    pub use ntex_mqtt::v5::codec::{self, Decoded, Encoded, Packet};
}

/// raw v5 server, `max_packet_size` goes into the CONNACK
fn raw_v5_server(max_packet_size: Option<u32>, wire: Log) -> server::TestServer {
    server::test_server(async move || {
        let wire = wire.clone();
        fn_service(move |io: Io| {
            let wire = wire.clone();
            async move {
                use p5::*;
                let codec = codec::Codec::new();
                loop {
                    let item = match timeout(Millis(4000), io.recv(&codec)).await {
                        Err(_) => {
                            push(&wire, "srv: idle timeout".into());
                            break;
                        }
                        Ok(Err(e)) => {
                            push(&wire, format!("srv: recv error {:?}", e));
                            break;
                        }
                        Ok(Ok(None)) => {
                            push(&wire, "srv: connection closed by the client".into());
                            break;
                        }
                        Ok(Ok(Some(item))) => item,
                    };
                    match item {
                        Decoded::Packet(Packet::Connect(_), _) => {
                            push(&wire, "srv: CONNECT".into());
                            let ack = codec::ConnectAck { max_packet_size, ..Default::default() };
                            io.send(Encoded::Packet(Packet::ConnectAck(Box::new(ack))), &codec)
                                .await
                                .unwrap();
                        }
                        Decoded::Packet(Packet::Subscribe(s), _) => {
                            push(
                                &wire,
                                format!(
                                    "srv: SUBSCRIBE id={} filters={:?} -> SUBACK id={}",
                                    s.packet_id,
                                    s.topic_filters
                                        .iter()
                                        .map(|f| f.0.len())
                                        .collect::<Vec<_>>(),
                                    s.packet_id
                                ),
                            );
                            let ack = codec::SubscribeAck {
                                packet_id: s.packet_id,
                                properties: Default::default(),
                                reason_string: None,
                                status: s
                                    .topic_filters
                                    .iter()
                                    .map(|_| codec::SubscribeAckReason::GrantedQos1)
                                    .collect(),
                            };
                            let _ =
                                io.send(Encoded::Packet(Packet::SubscribeAck(ack)), &codec).await;
                        }
                        Decoded::Publish(p, _, _) => {
                            push(
                                &wire,
                                format!(
                                    "srv: PUBLISH topic={:?} qos={:?} id={:?}",
                                    p.topic, p.qos, p.packet_id
                                ),
                            );
                            if let Some(id) = p.packet_id {
                                push(&wire, format!("srv: -> PUBACK id={}", id));
                                let ack = codec::PublishAck {
                                    packet_id: id,
                                    reason_code: codec::PublishAckReason::Success,
                                    properties: Default::default(),
                                    reason_string: None,
                                };
                                let _ = io
                                    .send(Encoded::Packet(Packet::PublishAck(ack)), &codec)
                                    .await;
                            }
                        }
                        Decoded::Packet(Packet::PingRequest, _) => {
                            push(&wire, "srv: PINGREQ -> PINGRESP".into());
                            let _ = io.send(Encoded::Packet(Packet::PingResponse), &codec).await;
                        }
                        Decoded::Packet(Packet::Disconnect(d), _) => {
                            push(
                                &wire,
                                format!("srv: DISCONNECT from the client {:?}", d.reason_code),
                            );
                        }
                        other => push(&wire, format!("srv: other {:?}", other)),
                    }
                }
                Ok::<_, ()>(())
            }
        })
    })
}

/// Connects the real v5 client and spawns its dispatcher with a logging control service.
async fn v5_client(srv: &server::TestServer, ctl: Log) -> v5::MqttSink {
    use p5::*;
    let client = client::MqttConnector::new()
        .pipeline(SharedCfg::default())
        .await
        .unwrap()
        .call(client::Connect::new(srv.addr()).client_id("user"))
        .await
        .unwrap();
    println!(
        "PROBE v5 client connected: CONNACK max_packet_size={:?} receive_max={}",
        client.packet().max_packet_size,
        client.packet().receive_max
    );
    let sink = client.sink();

    let (ctl1, ctl2, ctl3) = (ctl.clone(), ctl.clone(), ctl);
    ntex::rt::spawn(async move {
        let r = client
            .start_with_control(
                fn_service(move |msg: client::ProtocolMessage| {
                    push(&ctl1, format!("client protocol message: {:?}", msg));
                    async move { Ok::<_, ()>(msg.ack()) }
                }),
                fn_service(move |msg: Control<()>| {
                    push(&ctl2, format!("client control: {:?}", msg));
                    async move { Ok::<_, ()>(None) }
                }),
            )
            .await;
        push(&ctl3, format!("client dispatcher finished: {:?}", r));
    });
    sink
}

fn opts() -> v5::codec::SubscriptionOptions {
    v5::codec::SubscriptionOptions {
        qos: v5::QoS::AtLeastOnce,
        no_local: false,
        retain_as_published: false,
        retain_handling: v5::codec::RetainHandling::AtSubscribe,
    }
}

fn fmt_sub5(
    r: &Result<Result<v5::codec::SubscribeAck, SendPacketError>, ()>,
) -> String {
    match r {
        Ok(Ok(a)) => format!("Ok(SUBACK id={} {:?})", a.packet_id, a.status),
        Ok(Err(e)) => format!("Err({:?})", e),
        Err(()) => "TIMEOUT (future never resolved)".to_string(),
    }
}

fn fmt_pub5(r: &Result<Result<v5::codec::PublishAck, SendPacketError>, ()>) -> String {
    match r {
        Ok(Ok(a)) => format!("Ok(PUBACK id={} {:?})", a.packet_id, a.reason_code),
        Ok(Err(e)) => format!("Err({:?})", e),
        Err(()) => "TIMEOUT (future never resolved)".to_string(),
    }
}

#[derive(Debug, Default)]
struct Outcome {
    failed_subscribe: String,
    wire_after_failed: Vec<String>,
    credit_before: usize,
    credit_after_failed: usize,
    second: String,
    open_after_second: bool,
    third: String,
    ready: String,
    wire: Vec<String>,
    ctl: Vec<String>,
}

/// 1. control: short subscribe, then QoS1 publish
#[test]
fn d20_v5_control_subscribe_ok() {
    let out = block_on("d20_1", async {
        let (wire, ctl): (Log, Log) = Default::default();
        let srv = raw_v5_server(Some(40), wire.clone());
        let sink = v5_client(&srv, ctl.clone()).await;

        let mut out = Outcome { credit_before: sink.credit(), ..Default::default() };
        let r = timeout(
            Millis(2000),
            sink.subscribe(None).topic_filter(ByteString::from_static("a/b"), opts()).send(),
        )
        .await;
        out.failed_subscribe = fmt_sub5(&r);
        out.credit_after_failed = sink.credit();
        let r = timeout(Millis(2000), sink.publish("t").send_at_least_once(Bytes::new())).await;
        out.second = fmt_pub5(&r);
        out.open_after_second = sink.is_open();
        sleep(Millis(100)).await;
        out.wire = snapshot(&wire);
        out.ctl = snapshot(&ctl);
        sink.close();
        sleep(Millis(100)).await;
        drop(srv);
        out
    });
    println!(
        "PROBE-RESULT d20_v5_control: subscribe(\"a/b\") -> {}; publish qos1 -> {}; open={}; credit {} -> {}; control={:?}",
        out.failed_subscribe,
        out.second,
        out.open_after_second,
        out.credit_before,
        out.credit_after_failed,
        out.ctl
    );
    println!("PROBE-RESULT d20_v5_control wire: {:?}", out.wire);
    assert!(out.failed_subscribe.starts_with("Ok(SUBACK id=1"), "{}", out.failed_subscribe);
    assert!(out.second.starts_with("Ok(PUBACK id=2"), "{}", out.second);
    assert!(out.open_after_second);
    assert_eq!(out.credit_before, out.credit_after_failed);
}

/// 2. failed subscribe (over Maximum Packet Size), then a correct QoS1 exchange
#[test]
fn d20_v5_failed_subscribe_then_publish() {
    let out = block_on("d20_2", async {
        let (wire, ctl): (Log, Log) = Default::default();
        let srv = raw_v5_server(Some(40), wire.clone());
        let sink = v5_client(&srv, ctl.clone()).await;

        let mut out = Outcome { credit_before: sink.credit(), ..Default::default() };

        // SUBSCRIBE with a 100 byte filter: does not fit into 40 bytes
        let b = sink.subscribe(None).topic_filter(ByteString::from("f".repeat(100)), opts());
        println!("PROBE failed-subscribe candidate size() = {}", b.size());
        let r = timeout(Millis(2000), b.send()).await;
        out.failed_subscribe = fmt_sub5(&r);
        println!("PROBE subscribe(100 byte filter) -> {}", out.failed_subscribe);
        sleep(Millis(200)).await;
        out.wire_after_failed = snapshot(&wire);
        out.credit_after_failed = sink.credit();
        println!(
            "PROBE after the failed subscribe: credit {} -> {}, is_open={}, server saw {:?}",
            out.credit_before,
            out.credit_after_failed,
            sink.is_open(),
            out.wire_after_failed
        );

        // a correct QoS1 exchange: PUBLISH "t" (6 bytes) -> PUBACK with the same id
        let r = timeout(Millis(2000), sink.publish("t").send_at_least_once(Bytes::new())).await;
        out.second = fmt_pub5(&r);
        println!("PROBE publish qos1 after the failed subscribe -> {}", out.second);
        sleep(Millis(200)).await;
        out.open_after_second = sink.is_open();

        // is the connection still usable?
        out.ready = format!("{:?}", timeout(Millis(1000), sink.ready()).await);
        let r = timeout(Millis(2000), sink.publish("u").send_at_least_once(Bytes::new())).await;
        out.third = fmt_pub5(&r);
        sleep(Millis(200)).await;
        out.wire = snapshot(&wire);
        out.ctl = snapshot(&ctl);
        sink.close();
        sleep(Millis(100)).await;
        drop(srv);
        out
    });
    println!("PROBE-RESULT d20_v5_failed_subscribe_then_publish: failed subscribe -> {}", out.failed_subscribe);
    println!(
        "PROBE-RESULT d20_v5_failed_subscribe_then_publish: server saw after the failed subscribe: {:?}",
        out.wire_after_failed
    );
    println!(
        "PROBE-RESULT d20_v5_failed_subscribe_then_publish: credit before={} after failed subscribe={}",
        out.credit_before, out.credit_after_failed
    );
    println!(
        "PROBE-RESULT d20_v5_failed_subscribe_then_publish: publish qos1 -> {}; sink.is_open() afterwards={}; ready()={}; second publish -> {}",
        out.second, out.open_after_second, out.ready, out.third
    );
    println!("PROBE-RESULT d20_v5_failed_subscribe_then_publish: client side: {:?}", out.ctl);
    println!("PROBE-RESULT d20_v5_failed_subscribe_then_publish: wire: {:?}", out.wire);

    // preconditions of the scenario
    assert_eq!(out.failed_subscribe, "Err(Encode(OverMaxPacketSize))");
    assert_eq!(
        out.wire_after_failed,
        vec!["srv: CONNECT".to_string()],
        "the failed SUBSCRIBE must not reach the server"
    );
    // correct behaviour; every violated expectation is listed
    let mut bad = Vec::new();
    if out.credit_after_failed != out.credit_before {
        bad.push(format!(
            "(b) a SUBSCRIBE that was never written occupies a send-window slot: credit {} -> {}",
            out.credit_before, out.credit_after_failed
        ));
    }
    if !out.second.starts_with("Ok(PUBACK") {
        bad.push(format!(
            "(c) the QoS1 publish was acknowledged correctly by the server but the client reports {}",
            out.second
        ));
    }
    if !out.open_after_second {
        bad.push("(c) the client closed a healthy connection".to_string());
    }
    if !out.third.starts_with("Ok(PUBACK") {
        bad.push(format!("connection unusable afterwards: second publish -> {}", out.third));
    }
    if let Some(e) = out.ctl.iter().find(|s| s.contains("Protocol")) {
        bad.push(format!("client reported a protocol error although the peer was correct: {}", e));
    }
    assert!(bad.is_empty(), "{:#?}", bad);
}

/// 3. explicit id 7: failed subscribe, then a correct subscribe with the same id
#[test]
fn d20_v5_failed_subscribe_id_reuse() {
    let (first, second, open, wire, ctl) = block_on("d20_3", async {
        let (wire, ctl): (Log, Log) = Default::default();
        let srv = raw_v5_server(Some(40), wire.clone());
        let sink = v5_client(&srv, ctl.clone()).await;

        let r = timeout(
            Millis(2000),
            sink.subscribe(None)
                .packet_id(7)
                .topic_filter(ByteString::from("f".repeat(100)), opts())
                .send(),
        )
        .await;
        let first = fmt_sub5(&r);
        sleep(Millis(100)).await;
        let r = timeout(
            Millis(2000),
            sink.subscribe(None)
                .packet_id(7)
                .topic_filter(ByteString::from_static("a/b"), opts())
                .send(),
        )
        .await;
        let second = fmt_sub5(&r);
        let open = sink.is_open();
        sleep(Millis(100)).await;
        let res = (first, second, open, snapshot(&wire), snapshot(&ctl));
        sink.close();
        sleep(Millis(100)).await;
        drop(srv);
        res
    });
    println!(
        "PROBE-RESULT d20_v5_failed_subscribe_id_reuse: subscribe id=7 (100 byte filter) -> {}; subscribe id=7 (\"a/b\") -> {}; open={}",
        first, second, open
    );
    println!("PROBE-RESULT d20_v5_failed_subscribe_id_reuse: wire: {:?} client side: {:?}", wire, ctl);
    assert_eq!(first, "Err(Encode(OverMaxPacketSize))");
    assert!(
        second.starts_with("Ok(SUBACK id=7"),
        "(a) id 7 was never sent, nothing is outstanding, but the second subscribe got {}",
        second
    );
}

/// 3b. the same for UNSUBSCRIBE (identical code shape in `UnsubscribeBuilder::send`)
#[test]
fn d20_v5_failed_unsubscribe_then_publish() {
    let (first, second, open, credit, wire, ctl) = block_on("d20_3b", async {
        let (wire, ctl): (Log, Log) = Default::default();
        let srv = raw_v5_server(Some(40), wire.clone());
        let sink = v5_client(&srv, ctl.clone()).await;
        let c0 = sink.credit();

        let r = timeout(
            Millis(2000),
            sink.unsubscribe().topic_filter(ByteString::from("f".repeat(100))).send(),
        )
        .await;
        let first = match &r {
            Ok(Ok(a)) => format!("Ok(UNSUBACK id={})", a.packet_id),
            Ok(Err(e)) => format!("Err({:?})", e),
            Err(()) => "TIMEOUT".to_string(),
        };
        sleep(Millis(100)).await;
        let c1 = sink.credit();
        let r = timeout(Millis(2000), sink.publish("t").send_at_least_once(Bytes::new())).await;
        let second = fmt_pub5(&r);
        sleep(Millis(200)).await;
        let open = sink.is_open();
        let res = (first, second, open, (c0, c1), snapshot(&wire), snapshot(&ctl));
        sink.close();
        sleep(Millis(100)).await;
        drop(srv);
        res
    });
    println!(
        "PROBE-RESULT d20_v5_failed_unsubscribe_then_publish: unsubscribe(100 byte filter) -> {}; credit {:?}; publish qos1 -> {}; open={}",
        first, credit, second, open
    );
    println!(
        "PROBE-RESULT d20_v5_failed_unsubscribe_then_publish: wire: {:?} client side: {:?}",
        wire, ctl
    );
    assert_eq!(first, "Err(Encode(OverMaxPacketSize))");
    assert!(!wire.iter().any(|s| s.contains("UNSUBSCRIBE")), "{:?}", wire);
    let mut bad = Vec::new();
    if credit.0 != credit.1 {
        bad.push(format!(
            "(b) window slot taken by an UNSUBSCRIBE that was never written: credit {} -> {}",
            credit.0, credit.1
        ));
    }
    if !second.starts_with("Ok(PUBACK") {
        bad.push(format!("(c) publish after the failed unsubscribe: {}", second));
    }
    if !open {
        bad.push("(c) the client closed a healthy connection".to_string());
    }
    assert!(bad.is_empty(), "{:#?}", bad);
}

// ------------------------------------------------------------------ v3

mod p3 {
    pub use ntex_mqtt::v3::client;
    pub use ntex_mqtt::v3::codec::{self, Decoded, Encoded, Packet};
}

fn raw_v3_server(wire: Log) -> server::TestServer {
    server::test_server(async move || {
        let wire = wire.clone();
        fn_service(move |io: Io| {
            let wire = wire.clone();
            async move {
                use p3::*;
                let codec = codec::Codec::new();
                loop {
                    let item = match timeout(Millis(4000), io.recv(&codec)).await {
                        Err(_) => {
                            push(&wire, "srv: idle timeout".into());
                            break;
                        }
                        Ok(Err(e)) => {
                            push(&wire, format!("srv: recv error {:?}", e));
                            break;
                        }
                        Ok(Ok(None)) => {
                            push(&wire, "srv: connection closed by the client".into());
                            break;
                        }
                        Ok(Ok(Some(item))) => item,
                    };
                    match item {
                        Decoded::Packet(Packet::Connect(_), _) => {
                            push(&wire, "srv: CONNECT".into());
                            io.send(
                                Encoded::Packet(Packet::ConnectAck(codec::ConnectAck {
                                    return_code: codec::ConnectAckReason::ConnectionAccepted,
                                    session_present: false,
                                })),
                                &codec,
                            )
                            .await
                            .unwrap();
                        }
                        Decoded::Packet(Packet::Subscribe { packet_id, topic_filters }, _) => {
                            push(
                                &wire,
                                format!(
                                    "srv: SUBSCRIBE id={} filters={:?} -> SUBACK id={}",
                                    packet_id,
                                    topic_filters.iter().map(|f| f.0.len()).collect::<Vec<_>>(),
                                    packet_id
                                ),
                            );
                            let status = topic_filters
                                .iter()
                                .map(|_| codec::SubscribeReturnCode::Success(v3::QoS::AtLeastOnce))
                                .collect();
                            let _ = io
                                .send(
                                    Encoded::Packet(Packet::SubscribeAck { packet_id, status }),
                                    &codec,
                                )
                                .await;
                        }
                        Decoded::Publish(p, _, _) => {
                            push(
                                &wire,
                                format!(
                                    "srv: PUBLISH topic={:?} qos={:?} id={:?} payload_size={}",
                                    p.topic, p.qos, p.packet_id, p.payload_size
                                ),
                            );
                            if let Some(packet_id) = p.packet_id {
                                push(&wire, format!("srv: -> PUBACK id={}", packet_id));
                                let _ = io
                                    .send(Encoded::Packet(Packet::PublishAck { packet_id }), &codec)
                                    .await;
                            }
                        }
                        Decoded::PayloadChunk(b, eof) => {
                            push(&wire, format!("srv: payload chunk {} bytes eof={}", b.len(), eof));
                        }
                        Decoded::Packet(Packet::PingRequest, _) => {
                            push(&wire, "srv: PINGREQ -> PINGRESP".into());
                            let _ = io.send(Encoded::Packet(Packet::PingResponse), &codec).await;
                        }
                        Decoded::Packet(Packet::Disconnect, _) => {
                            push(&wire, "srv: DISCONNECT from the client".into());
                        }
                        other => push(&wire, format!("srv: other {:?}", other)),
                    }
                }
                Ok::<_, ()>(())
            }
        })
    })
}

async fn v3_client(srv: &server::TestServer, ctl: Log) -> v3::MqttSink {
    use p3::*;
    let client = client::MqttConnector::new()
        .pipeline(SharedCfg::default())
        .await
        .unwrap()
        .call(client::Connect::new(srv.addr()).client_id("user"))
        .await
        .unwrap();
    let sink = client.sink();

    let (ctl1, ctl2, ctl3) = (ctl.clone(), ctl.clone(), ctl);
    ntex::rt::spawn(async move {
        let r = client
            .start_with_control(
                fn_service(move |msg: client::ProtocolMessage| {
                    push(&ctl1, format!("client protocol message: {:?}", msg));
                    async move { Ok::<_, ()>(msg.ack()) }
                }),
                fn_service(move |msg: Control<()>| {
                    push(&ctl2, format!("client control: {:?}", msg));
                    async move { Ok::<_, ()>(None) }
                }),
            )
            .await;
        push(&ctl3, format!("client dispatcher finished: {:?}", r));
    });
    sink
}

fn fmt_unit<T: std::fmt::Debug>(r: &Result<Result<T, SendPacketError>, ()>) -> String {
    match r {
        Ok(Ok(a)) => format!("Ok({:?})", a),
        Ok(Err(e)) => format!("Err({:?})", e),
        Err(()) => "TIMEOUT (future never resolved)".to_string(),
    }
}

/// 4. v3: SUBSCRIBE refused with `ExpectPayload` while a streamed QoS0 publish is
/// incomplete (nothing written), stream completed, then a correct QoS1 exchange.
#[test]
fn d20_v3_failed_subscribe_then_publish() {
    let out = block_on("d20_4", async {
        let (wire, ctl): (Log, Log) = Default::default();
        let srv = raw_v3_server(wire.clone());
        let sink = v3_client(&srv, ctl.clone()).await;
        let mut out = Outcome { credit_before: sink.credit(), ..Default::default() };

        // streamed QoS0 publish, 4 bytes announced, nothing sent yet
        let stream = sink.publish("s").stream_at_most_once(4).expect("stream_at_most_once");

        let r = timeout(
            Millis(2000),
            sink.subscribe()
                .packet_id(7)
                .topic_filter(ByteString::from_static("a/b"), v3::QoS::AtLeastOnce)
                .send(),
        )
        .await;
        out.failed_subscribe = fmt_unit(&r);
        println!("PROBE v3 subscribe during an incomplete streamed publish -> {}", out.failed_subscribe);

        // complete the streamed publish
        let r = stream.send(Bytes::from_static(b"abcd")).await;
        println!("PROBE v3 stream.send(4 bytes) -> {:?}", r);
        drop(stream);
        sleep(Millis(200)).await;
        out.wire_after_failed = snapshot(&wire);
        out.credit_after_failed = sink.credit();
        println!(
            "PROBE v3 after the failed subscribe: credit {} -> {}, is_open={}, server saw {:?}",
            out.credit_before,
            out.credit_after_failed,
            sink.is_open(),
            out.wire_after_failed
        );

        // (a) id 7 again
        let r = timeout(
            Millis(2000),
            sink.subscribe()
                .packet_id(7)
                .topic_filter(ByteString::from_static("a/b"), v3::QoS::AtLeastOnce)
                .send(),
        )
        .await;
        out.ready = fmt_unit(&r);
        println!("PROBE v3 second subscribe with id 7 -> {}", out.ready);

        // (c) a correct QoS1 exchange
        let r = timeout(Millis(2000), sink.publish("t").send_at_least_once(Bytes::new())).await;
        out.second = fmt_unit(&r);
        println!("PROBE v3 publish qos1 after the failed subscribe -> {}", out.second);
        sleep(Millis(200)).await;
        out.open_after_second = sink.is_open();
        let r = timeout(Millis(2000), sink.publish("u").send_at_least_once(Bytes::new())).await;
        out.third = fmt_unit(&r);
        sleep(Millis(200)).await;
        out.wire = snapshot(&wire);
        out.ctl = snapshot(&ctl);
        sink.close();
        sleep(Millis(100)).await;
        drop(srv);
        out
    });
    println!("PROBE-RESULT d20_v3_failed_subscribe_then_publish: failed subscribe id=7 -> {}", out.failed_subscribe);
    println!(
        "PROBE-RESULT d20_v3_failed_subscribe_then_publish: server saw up to the end of the stream: {:?}",
        out.wire_after_failed
    );
    println!(
        "PROBE-RESULT d20_v3_failed_subscribe_then_publish: credit before={} after failed subscribe={}",
        out.credit_before, out.credit_after_failed
    );
    println!(
        "PROBE-RESULT d20_v3_failed_subscribe_then_publish: second subscribe id=7 -> {}; publish qos1 -> {}; sink.is_open() afterwards={}; second publish -> {}",
        out.ready, out.second, out.open_after_second, out.third
    );
    println!("PROBE-RESULT d20_v3_failed_subscribe_then_publish: client side: {:?}", out.ctl);
    println!("PROBE-RESULT d20_v3_failed_subscribe_then_publish: wire: {:?}", out.wire);

    assert_eq!(out.failed_subscribe, "Err(Encode(ExpectPayload))");
    assert!(
        !out.wire_after_failed.iter().any(|s| s.contains("SUBSCRIBE")),
        "the failed SUBSCRIBE must not reach the server"
    );
    let mut bad = Vec::new();
    if out.credit_after_failed != out.credit_before {
        bad.push(format!(
            "(b) a SUBSCRIBE that was never written occupies a send-window slot: credit {} -> {}",
            out.credit_before, out.credit_after_failed
        ));
    }
    if !out.ready.starts_with("Ok(") {
        bad.push(format!("(a) id 7 was never sent but the second subscribe got {}", out.ready));
    }
    if !out.second.starts_with("Ok(") {
        bad.push(format!(
            "(c) the QoS1 publish was acknowledged correctly by the server but the client reports {}",
            out.second
        ));
    }
    if !out.open_after_second {
        bad.push("(c) the client closed a healthy connection".to_string());
    }
    if !out.third.starts_with("Ok(") {
        bad.push(format!("connection unusable afterwards: second publish -> {}", out.third));
    }
    assert!(bad.is_empty(), "{:#?}", bad);
}

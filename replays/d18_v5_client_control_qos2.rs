//! D18 (C03): MQTT 5 *client* dispatcher, inbound QoS2 PUBLISH on the CONTROL path.
//!
//! The client is started with `client.start(control_service)` only (no `.resource(..)`),
//! so every inbound PUBLISH is forwarded to the control service as
//! `v5::client::ProtocolMessage::Publish(p)`; the application answers with
//! `p.ack(codec::PublishAckReason::Success)`.
//!
//! A raw "server" (plain Io + v5 codec) accepts the CONNECT, answers CONNACK and sends
//!   1. PUBLISH QoS2 id=1   expected answer: PUBREC id=1 Success   (MQTT 5 4.3.3)
//!   2. PUBREL id=1         expected answer: PUBCOMP id=1 Success
//!
//! Suspected (src/v5/client/control.rs `Publish::ack` / `ack_with` / `into_inner`): the
//! answer is always `Packet::PublishAck`, whatever the QoS, and
//! src/v5/client/dispatcher.rs `control_pkt(.., packet_id)` releases the id at once, so
//! step 1 is answered with PUBACK and step 2 with PUBCOMP PacketIdNotFound.
//!
//! Second scenario: a real v5 `MqttServer` whose sink does `send_exactly_once()` to the
//! real v5 client (control service only): expected `Ok(PublishReceived)` and a successful
//! `release()`.
//!
//! Control: the same raw server sends PUBLISH QoS1 id=1 -> PUBACK id=1 Success (passes).
use std::future::Future;
use std::num::NonZeroU16;
use std::sync::{Arc, Mutex};

use ntex::io::Io;
use ntex::server;
use ntex::service::{ServiceFactory, cfg::SharedCfg, fn_service};
use ntex::time::{Millis, sleep, timeout};
use ntex::util::{ByteString, Bytes, Ready};

use ntex_mqtt::MqttServiceConfig;
use ntex_mqtt::v5::codec::{self, Decoded, Encoded, Packet};
use ntex_mqtt::v5::{self, Handshake, MqttServer, Publish, PublishAck, QoS, client};

struct St;

#[derive(Debug)]
struct TestError;

impl From<()> for TestError {
    fn from(_: ()) -> Self {
        TestError
    }
}

impl TryFrom<TestError> for PublishAck {
    type Error = TestError;

    fn try_from(err: TestError) -> Result<Self, Self::Error> {
        Err(err)
    }
}

fn block_on<F: Future + 'static>(name: &str, f: F) -> F::Output
where
    F::Output: 'static,
{
    ntex::rt::System::build().name(name).testing().build(ntex::rt::DefaultRuntime).block_on(f)
}

fn publish(qos: QoS, id: u16) -> codec::Publish {
    codec::Publish {
        dup: false,
        retain: false,
        qos,
        topic: ByteString::from("test"),
        packet_id: NonZeroU16::new(id),
        payload_size: 0,
        properties: Default::default(),
    }
}

fn short(d: &Result<Option<Decoded>, String>) -> String {
    match d {
        Ok(Some(Decoded::Packet(Packet::PublishAck(a), _))) => {
            format!("PUBACK id={} {:?}", a.packet_id, a.reason_code)
        }
        Ok(Some(Decoded::Packet(Packet::PublishReceived(a), _))) => {
            format!("PUBREC id={} {:?}", a.packet_id, a.reason_code)
        }
        Ok(Some(Decoded::Packet(Packet::PublishComplete(a), _))) => {
            format!("PUBCOMP id={} {:?}", a.packet_id, a.reason_code)
        }
        Ok(Some(Decoded::Packet(Packet::Disconnect(a), _))) => {
            format!("DISCONNECT {:?} {:?}", a.reason_code, a.reason_string)
        }
        Ok(Some(other)) => format!("{:?}", other),
        Ok(None) => "connection closed".to_string(),
        Err(e) => format!("error/timeout: {e}"),
    }
}

async fn recv(io: &Io, codec: &codec::Codec) -> Result<Option<Decoded>, String> {
    match timeout(Millis(1500), io.recv(codec)).await {
        Ok(Ok(v)) => Ok(v),
        Ok(Err(e)) => Err(format!("{:?}", e)),
        Err(_) => Err("timeout".to_string()),
    }
}

/// The application side control service: publishes are acknowledged with
/// `p.ack(PublishAckReason::Success)`, everything else with `.ack()`.
async fn control(
    name: &'static str,
    msg: client::ProtocolMessage,
) -> Result<client::ProtocolMessageAck, TestError> {
    match msg {
        client::ProtocolMessage::Publish(p) => {
            println!(
                "PROBE {} client control service: Publish qos={:?} id={:?} -> p.ack(Success)",
                name,
                p.packet().qos,
                p.packet().packet_id
            );
            Ok(p.ack(codec::PublishAckReason::Success))
        }
        other => {
            println!("PROBE {} client control service: {:?} -> .ack()", name, other);
            Ok(other.ack())
        }
    }
}

async fn raw_server_vs_client(name: &'static str, qos: QoS) -> Vec<String> {
    let steps: Arc<Mutex<Vec<String>>> = Arc::new(Mutex::new(Vec::new()));
    let done: Arc<Mutex<bool>> = Arc::new(Mutex::new(false));
    let (steps2, done2) = (steps.clone(), done.clone());

    let srv = server::test_server(async move || {
        let (steps, done) = (steps2.clone(), done2.clone());
        fn_service(move |io: Io| {
            let (steps, done) = (steps.clone(), done.clone());
            async move {
                let codec = codec::Codec::new();
                // handshake
                let c = recv(&io, &codec).await;
                assert!(matches!(c, Ok(Some(Decoded::Packet(Packet::Connect(_), _)))), "{:?}", c);
                io.send(Encoded::Packet(Packet::ConnectAck(Box::default())), &codec)
                    .await
                    .unwrap();

                // 1. PUBLISH id=1
                io.send(Encoded::Publish(publish(qos, 1), Some(Bytes::new())), &codec)
                    .await
                    .unwrap();
                let r = short(&recv(&io, &codec).await);
                println!("PROBE {} step1 PUBLISH {:?} id=1 -> client answered: {}", name, qos, r);
                steps.lock().unwrap().push(r);

                if qos == QoS::ExactlyOnce {
                    // 2. PUBREL id=1
                    io.send(
                        Encoded::Packet(Packet::PublishRelease(codec::PublishAck2 {
                            packet_id: NonZeroU16::new(1).unwrap(),
                            reason_code: codec::PublishAck2Reason::Success,
                            properties: Default::default(),
                            reason_string: None,
                        })),
                        &codec,
                    )
                    .await
                    .unwrap();
                    let r = short(&recv(&io, &codec).await);
                    println!("PROBE {} step2 PUBREL id=1 -> client answered: {}", name, r);
                    steps.lock().unwrap().push(r);
                }

                // anything else the client wrote on its own (nothing is expected)
                match timeout(Millis(300), io.recv(&codec)).await {
                    Err(_) => {}
                    Ok(Ok(None)) => {}
                    Ok(other) => {
                        let r = short(&other.map_err(|e| format!("{:?}", e)));
                        println!("PROBE {} extra packet from the client: {}", name, r);
                        steps.lock().unwrap().push(format!("extra: {}", r));
                    }
                }

                *done.lock().unwrap() = true;
                Ok::<_, ()>(())
            }
        })
    });

    let client = client::MqttConnector::new()
        .pipeline(SharedCfg::default())
        .await
        .unwrap()
        .call(client::Connect::new(srv.addr()).client_id("user"))
        .await
        .unwrap();

    // control service ONLY: no `.resource(..)`
    ntex::rt::spawn(async move {
        let r = client
            .start(fn_service(move |msg: client::ProtocolMessage| control(name, msg)))
            .await;
        println!("PROBE {} client dispatcher finished: {:?}", name, r);
    });

    for _ in 0..60 {
        if *done.lock().unwrap() {
            break;
        }
        sleep(Millis(100)).await;
    }
    drop(srv);
    sleep(Millis(50)).await;
    let res = steps.lock().unwrap().clone();
    res
}

#[test]
fn d18_control_qos1_control_path() {
    let res = block_on("d18_q1", raw_server_vs_client("qos1/control", QoS::AtLeastOnce));
    println!("PROBE-RESULT raw server vs v5 client (control path), QoS1: {:?}", res);
    assert_eq!(res, vec!["PUBACK id=1 Success"]);
}

#[test]
fn d18_v5_client_qos2_control_path_raw_server() {
    let res = block_on("d18_a", raw_server_vs_client("qos2/control", QoS::ExactlyOnce));
    println!("PROBE-RESULT raw server vs v5 client (control path), QoS2: {:?}", res);
    assert_eq!(res.len(), 2, "{:?}", res);
    assert_eq!(res[0], "PUBREC id=1 Success", "QoS2 PUBLISH must be answered with PUBREC");
    assert_eq!(res[1], "PUBCOMP id=1 Success", "PUBREL must be answered with PUBCOMP Success");
}

async fn real_server_vs_client(name: &'static str) -> (String, String) {
    let out: Arc<Mutex<Option<(String, String)>>> = Arc::new(Mutex::new(None));
    let out2 = out.clone();

    let srv = server::TestServerBuilder::new(async move || {
        let out = out2.clone();
        MqttServer::new(move |con: Handshake| {
            let sink = con.sink();
            let out = out.clone();
            ntex::rt::spawn(async move {
                sleep(Millis(100)).await;
                let r = timeout(
                    Millis(1500),
                    sink.publish(ByteString::from_static("test")).send_exactly_once(Bytes::new()),
                )
                .await;
                let first = format!("{:?}", r);
                println!("PROBE {} server send_exactly_once -> {}", name, first);
                let second = match r {
                    Ok(Ok(received)) => {
                        format!("{:?}", timeout(Millis(1500), received.release()).await)
                    }
                    _ => "not attempted".to_string(),
                };
                println!("PROBE {} server release() -> {}", name, second);
                println!("PROBE {} server sink.is_open() = {}", name, sink.is_open());
                *out.lock().unwrap() = Some((first, second));
            });
            Ready::Ok::<_, TestError>(con.ack(St))
        })
        .publish(|p: Publish| Ready::Ok::<_, TestError>(p.ack()))
    })
    .config(SharedCfg::new("MQTT").add(MqttServiceConfig::new().set_max_qos(QoS::ExactlyOnce)))
    .start();

    let client = client::MqttConnector::new()
        .pipeline(SharedCfg::default())
        .await
        .unwrap()
        .call(client::Connect::new(srv.addr()).client_id("user"))
        .await
        .unwrap();

    // control service ONLY: no `.resource(..)`
    ntex::rt::spawn(async move {
        let r = client
            .start(fn_service(move |msg: client::ProtocolMessage| control(name, msg)))
            .await;
        println!("PROBE {} client dispatcher finished: {:?}", name, r);
    });

    for _ in 0..60 {
        if out.lock().unwrap().is_some() {
            break;
        }
        sleep(Millis(100)).await;
    }
    drop(srv);
    sleep(Millis(50)).await;
    let res = out.lock().unwrap().clone().unwrap_or(("unresolved".into(), "unresolved".into()));
    res
}

#[test]
fn d18_v5_client_qos2_control_path_real_server() {
    let res = block_on("d18_b", real_server_vs_client("real/control"));
    println!(
        "PROBE-RESULT real v5 server -> v5 client (control path) QoS2: send={} release={}",
        res.0, res.1
    );
    assert!(res.0.starts_with("Ok(Ok("), "send_exactly_once to a v5 client failed: {}", res.0);
    assert_eq!(res.1, "Ok(Ok(()))", "release() failed");
}

// keep the `v5` import used (type paths in the doc comment above)
#[allow(dead_code)]
type _Unused = v5::client::ProtocolMessage;
